module verif

go 1.23

require (
	github.com/weedbox/pokerface v0.0.0
	pgregory.net/rapid v1.3.0
)

replace github.com/weedbox/pokerface => /repo
