package vlib

import (
	"encoding/json"
	"fmt"
	"os"
	"runtime"
	"sync"
	"sync/atomic"
	"testing"
	"time"

	"pgregory.net/rapid"
)

// Outcome of one generated case: the decoded case (what a replay needs) and the
// violation of the *active* property, if any.
type Outcome struct {
	Case      interface{}
	Violation *Violation
}

// RunRapid drives prop with rapid. prop must be a pure function of its draws.
// When the active property is violated the decoded case of the last (= most
// shrunk) failing execution is written as the replay file; statistics are
// written in every case.
func RunRapid(t *testing.T, harness, kind string, st *Stats, prop func(rt *rapid.T) Outcome) {
	var last *Replay
	defer func() {
		if last != nil {
			st.Violations++
			path := WriteReplay(last)
			fmt.Printf("HARNESS-VIOLATION property=%s signature=%q replay=%s\n   %s\n", last.Violation.Property, last.Violation.Signature, path, last.Violation.Detail)
		}
		if err := st.Write(os.Getenv("VERIF_OUT")); err != nil {
			t.Logf("stats: %v", err)
		}
	}()
	rapid.Check(t, func(rt *rapid.T) {
		out := prop(rt)
		if out.Violation != nil && out.Violation.Property == Prop() {
			b, _ := json.Marshal(out.Case)
			last = &Replay{Property: Prop(), Harness: harness, Kind: kind, Case: b, Violation: out.Violation}
			rt.Fatalf("%s", out.Violation.Error())
		}
	})
}

// ReportReplay is used by the replay entry point of every harness.
func ReportReplay(t *testing.T, r *Replay, v *Violation) {
	if v != nil && v.Property == r.Property {
		fmt.Printf("REPLAY-VIOLATION property=%s signature=%q\n   %s\n", v.Property, v.Signature, v.Detail)
		t.Fail()
		return
	}
	fmt.Printf("REPLAY-OK property=%s\n", r.Property)
}

// ---------------------------------------------------------------------------
// Watchdog: a call into the code under test that never returns (an endless loop,
// a mutex that is never released) would otherwise hold the process until the
// test deadline. Harnesses bracket such calls with Busy()/Idle(); if one call
// stays busy for the limit, the process prints where it is stuck and exits with
// status 3 - the driver reports the run as inconclusive (exit 2), never as a
// violation: none of the properties checked this way promises termination.
// ---------------------------------------------------------------------------

var wdBusy, wdSeq int64
var wdOnce sync.Once

func Busy() {
	atomic.AddInt64(&wdSeq, 1)
	atomic.AddInt64(&wdBusy, 1)
}

func Idle() { atomic.AddInt64(&wdBusy, -1) }

func StartWatchdog(limit time.Duration) {
	wdOnce.Do(func() {
		go func() {
			var last int64 = -1
			var since time.Time
			for {
				time.Sleep(2 * time.Second)
				if atomic.LoadInt64(&wdBusy) <= 0 {
					last = -1
					continue
				}
				seq := atomic.LoadInt64(&wdSeq)
				if seq != last {
					last, since = seq, time.Now()
					continue
				}
				if time.Since(since) > limit {
					buf := make([]byte, 1<<16)
					n := runtime.Stack(buf, true)
					fmt.Fprintf(os.Stderr, "WATCHDOG: a call into the code under test has not returned for %s; inconclusive\n%s\n", limit, buf[:n])
					os.Exit(3)
				}
			}
		}()
	})
}
