package vlib

import (
	"encoding/json"
	"fmt"
	"os"
	"testing"

	"pgregory.net/rapid"
)

// Outcome of one generated case: the decoded case (what a replay needs) and the
// violation of the *active* property, if any.
type Outcome struct {
	Case      interface{}
	Violation *Violation
}

// RunRapid drives prop with rapid. prop must be a pure function of its draws.
// When the active property is violated the decoded case of the last (= most
// shrunk) failing execution is written as the replay file; statistics are
// written in every case.
func RunRapid(t *testing.T, harness, kind string, st *Stats, prop func(rt *rapid.T) Outcome) {
	var last *Replay
	defer func() {
		if last != nil {
			st.Violations++
			path := WriteReplay(last)
			fmt.Printf("HARNESS-VIOLATION property=%s signature=%q replay=%s\n   %s\n", last.Violation.Property, last.Violation.Signature, path, last.Violation.Detail)
		}
		if err := st.Write(os.Getenv("VERIF_OUT")); err != nil {
			t.Logf("stats: %v", err)
		}
	}()
	rapid.Check(t, func(rt *rapid.T) {
		out := prop(rt)
		if out.Violation != nil && out.Violation.Property == Prop() {
			b, _ := json.Marshal(out.Case)
			last = &Replay{Property: Prop(), Harness: harness, Kind: kind, Case: b, Violation: out.Violation}
			rt.Fatalf("%s", out.Violation.Error())
		}
	})
}

// ReportReplay is used by the replay entry point of every harness.
func ReportReplay(t *testing.T, r *Replay, v *Violation) {
	if v != nil && v.Property == r.Property {
		fmt.Printf("REPLAY-VIOLATION property=%s signature=%q\n   %s\n", v.Property, v.Signature, v.Detail)
		t.Fail()
		return
	}
	fmt.Printf("REPLAY-OK property=%s\n", r.Property)
}
