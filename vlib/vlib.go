// Package vlib holds what every harness shares: the violation value, the
// per-run statistics that become evidence, the hash used to count distinct
// non-trivial cases, and the files exchanged with the driver (cmd/vcheck).
package vlib

import (
	"encoding/base64"
	"encoding/binary"
	"encoding/json"
	"fmt"
	"hash/fnv"
	"os"
	"sort"
	"strconv"
)

// Violation is what an oracle returns when a property does not hold on a case.
type Violation struct {
	Property  string `json:"property"`
	Signature string `json:"signature"` // sub-check / shape of the trigger
	Detail    string `json:"detail"`
}

func (v *Violation) Error() string {
	return fmt.Sprintf("%s %s: %s", v.Property, v.Signature, v.Detail)
}

func V(prop, sig, format string, args ...interface{}) *Violation {
	return &Violation{Property: prop, Signature: sig, Detail: fmt.Sprintf(format, args...)}
}

// Replay is the file written when a case violates the property (and the
// format of the files under /verif/regress).
type Replay struct {
	Property  string          `json:"property"`
	Harness   string          `json:"harness"` // package under /verif/harness
	Kind      string          `json:"kind"`    // which decoder/oracle of that harness
	Case      json.RawMessage `json:"case"`
	Violation *Violation      `json:"violation,omitempty"`
	Note      string          `json:"note,omitempty"`
}

// Stats is accumulated by a harness process and merged by the driver.
type Stats struct {
	Evaluations int64             `json:"evaluations"`
	Classes     map[string]int64  `json:"classes"`
	Counters    map[string]int64  `json:"counters"`
	Samples     []json.RawMessage `json:"samples"`
	Violations  int64             `json:"violations"`
	Aborted     int64             `json:"aborted_by_panic"`
	Exhaustive  bool              `json:"exhaustive"`
	Stage       string            `json:"stage"`
	Hashes      string            `json:"hashes"` // base64 of little-endian uint64s
	hashes      map[uint64]struct{}
	sampleEvery int64
	sampleSeen  int64
}

func NewStats(stage string) *Stats {
	return &Stats{Stage: stage, Classes: map[string]int64{}, Counters: map[string]int64{}, hashes: map[uint64]struct{}{}, sampleEvery: 1}
}

func (s *Stats) Class(name string) { s.Classes[name]++ }
func (s *Stats) ClassIf(c bool, name string) {
	if c {
		s.Classes[name]++
	}
}
func (s *Stats) Count(name string, n int64) { s.Counters[name] += n }
func (s *Stats) NonTrivial(h uint64)        { s.hashes[h] = struct{}{} }
func (s *Stats) NonTrivialCount() int       { return len(s.hashes) }

// MergeHashes adds the non-trivial case hashes of another accumulator.
func (s *Stats) MergeHashes(o *Stats) {
	for h := range o.hashes {
		s.hashes[h] = struct{}{}
	}
}

// Sample keeps up to 5 cases, thinning out as the run gets longer so that the
// samples are spread over the run rather than being the first five.
func (s *Stats) Sample(v interface{}) {
	s.sampleSeen++
	if s.sampleSeen%s.sampleEvery != 0 {
		return
	}
	b, err := json.Marshal(v)
	if err != nil {
		return
	}
	if len(s.Samples) < 5 {
		s.Samples = append(s.Samples, b)
		return
	}
	// replace one and slow down
	s.Samples[int(s.sampleSeen/s.sampleEvery)%5] = b
	s.sampleEvery *= 4
}

func (s *Stats) Write(path string) error {
	if path == "" {
		return nil
	}
	keys := make([]uint64, 0, len(s.hashes))
	for h := range s.hashes {
		keys = append(keys, h)
	}
	sort.Slice(keys, func(i, j int) bool { return keys[i] < keys[j] })
	buf := make([]byte, 8*len(keys))
	for i, h := range keys {
		binary.LittleEndian.PutUint64(buf[8*i:], h)
	}
	s.Hashes = base64.StdEncoding.EncodeToString(buf)
	b, err := json.Marshal(s)
	if err != nil {
		return err
	}
	return os.WriteFile(path, b, 0o644)
}

// DecodeHashes is used by the driver when merging.
func DecodeHashes(enc string, into map[uint64]struct{}) {
	buf, err := base64.StdEncoding.DecodeString(enc)
	if err != nil {
		return
	}
	for i := 0; i+8 <= len(buf); i += 8 {
		into[binary.LittleEndian.Uint64(buf[i:])] = struct{}{}
	}
}

// Hash of a canonical encoding.
func Hash(parts ...interface{}) uint64 {
	h := fnv.New64a()
	for _, p := range parts {
		switch x := p.(type) {
		case string:
			h.Write([]byte(x))
		case []byte:
			h.Write(x)
		default:
			b, _ := json.Marshal(x)
			h.Write(b)
		}
		h.Write([]byte{0})
	}
	return h.Sum64()
}

// Env helpers -----------------------------------------------------------------

func Prop() string { return os.Getenv("VERIF_PROP") }
func Tier() string {
	t := os.Getenv("VERIF_TIER")
	if t == "" {
		return "quick"
	}
	return t
}
func Thorough() bool { return Tier() == "thorough" }

func EnvInt(name string, def int) int {
	if v := os.Getenv(name); v != "" {
		if n, err := strconv.Atoi(v); err == nil {
			return n
		}
	}
	return def
}

// Shard returns (index, total) for enumerative stages.
func Shard() (int, int) {
	n := EnvInt("VERIF_SHARDS", 1)
	if n < 1 {
		n = 1
	}
	return EnvInt("VERIF_SHARD", 0), n
}

// WriteReplay stores the failing case where the driver asked for it.
func WriteReplay(r *Replay) string {
	path := os.Getenv("VERIF_REPLAY_OUT")
	if path == "" {
		return ""
	}
	b, _ := json.MarshalIndent(r, "", " ")
	os.WriteFile(path, b, 0o644)
	return path
}

func ReadReplay(path string) (*Replay, error) {
	b, err := os.ReadFile(path)
	if err != nil {
		return nil, err
	}
	var r Replay
	if err := json.Unmarshal(b, &r); err != nil {
		return nil, err
	}
	return &r, nil
}
