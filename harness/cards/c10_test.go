package cards

import (
	"fmt"
	"testing"

	"github.com/weedbox/pokerface/combination"
	"pgregory.net/rapid"

	"verif/vlib"
)

// C10, direct mode: the candidate selections the engine ranks are exactly the
// admissible ones, and the best of them is what a full enumeration finds.

type c10Case struct {
	Hole       []string `json:"hole"`
	Board      []string `json:"board"`
	Required   int      `json:"required"`
	ShortTable bool     `json:"short_table"`
}

func checkC10Direct(c c10Case) (v *vlib.Violation) {
	defer func() {
		if e := recover(); e != nil {
			v = vlib.V("C10", "panic/direct", "hole=%v board=%v required=%d: %v", c.Hole, c.Board, c.Required, e)
		}
	}()
	table, order := Table(c.ShortTable)
	got := combination.GetAllPossibleCombinations(append([]string{}, c.Board...), append([]string{}, c.Hole...), c.Required)
	want := Admissible(c.Hole, c.Board, c.Required)
	wantSet := map[string]bool{}
	for _, w := range want {
		wantSet[setKey(w)] = true
	}
	gotSet := map[string]bool{}
	var best uint64
	for _, g := range got {
		if len(g) != 5 || !wantSet[setKey(g)] {
			return vlib.V("C10", "direct/inadmissible", "hole=%v board=%v required=%d: candidate %v is not an admissible selection", c.Hole, c.Board, c.Required, g)
		}
		gotSet[setKey(g)] = true
		if s := combination.CalculatePower(table, append([]string{}, g...)).Score; s > best {
			best = s
		}
	}
	// every admissible selection must be considered, or at least none that is
	// missing may beat the best considered one
	var refBest uint64
	var refBestSel []string
	open := c.ShortTable
	for _, w := range want {
		s := combination.CalculatePower(table, append([]string{}, w...)).Score
		if s > best {
			return vlib.V("C10", "direct/missed", "hole=%v board=%v required=%d: admissible selection %v (score %d) beats the best candidate considered (%d)", c.Hole, c.Board, c.Required, w, s, best)
		}
		if !(open && IsA9876(w)) {
			if k := Rank(w).Key(order); k > refBest {
				refBest, refBestSel = k, w
			}
		}
	}
	_ = refBestSel
	if len(gotSet) != len(wantSet) {
		return vlib.V("C10", "direct/incomplete", "hole=%v board=%v required=%d: %d distinct candidates, %d admissible selections", c.Hole, c.Board, c.Required, len(gotSet), len(wantSet))
	}
	return nil
}

func TestC10Direct(t *testing.T) {
	st := vlib.NewStats("direct")
	vlib.RunRapid(t, "cards", "c10direct", st, func(rt *rapid.T) vlib.Outcome {
		short := rapid.Bool().Draw(rt, "shortDeck")
		deck := rapid.Permutation(Deck(short)).Draw(rt, "deck")
		c := c10Case{ShortTable: short}
		nh := 2
		if rapid.IntRange(0, 2).Draw(rt, "omaha") == 0 {
			nh, c.Required = 4, 2
		}
		nb := rapid.IntRange(3, 5).Draw(rt, "board")
		c.Hole = deck[:nh]
		c.Board = deck[nh : nh+nb]
		st.Evaluations++
		st.Class(fmt.Sprintf("hole%d/board%d", nh, nb))
		v := checkC10Direct(c)
		if nb >= 4 {
			st.NonTrivial(vlib.Hash(setKey(c.Hole), setKey(c.Board), c.Required, short))
		}
		st.Sample(c)
		return vlib.Outcome{Case: c, Violation: v}
	})
}
