package cards

import (
	"encoding/json"
	"fmt"
	"os"
	"runtime"
	"sort"
	"sync"
	"testing"

	"github.com/weedbox/pokerface"
	"github.com/weedbox/pokerface/combination"
	"pgregory.net/rapid"

	"verif/vlib"
)

// ---------------------------------------------------------------------------
// C03 — exhaustive: every five-card hand of both decks under both tables.
// ---------------------------------------------------------------------------

type c03Case struct {
	ShortDeck  bool       `json:"short_deck"`
	ShortTable bool       `json:"short_table"`
	Hands      [][]string `json:"hands"` // one hand (category) or two hands (order)
}

type classInfo struct {
	key      uint64
	min, max uint64
	exMin    []string
	exMax    []string
	n        int
}

func score(table []combination.Combination, hand []string) (s uint64, cat combination.Combination, err interface{}) {
	defer func() {
		if e := recover(); e != nil {
			err = e
		}
	}()
	h := append([]string{}, hand...) // the evaluator must not depend on our slice
	ps := combination.CalculatePower(table, h)
	return ps.Score, ps.Combination, nil
}

var implCatName = combination.CombinationSymbol

// checkPair is the library-free oracle used by replay: hands[0] vs hands[1].
func checkC03(c c03Case) *vlib.Violation {
	_, order := Table(c.ShortTable)
	table := shippedTable(c.ShortTable)
	open := c.ShortDeck || c.ShortTable
	var sc []uint64
	var keys []uint64
	for _, h := range c.Hands {
		if open && IsA9876(h) {
			return nil
		}
		s, cat, perr := score(table, h)
		if perr != nil {
			return vlib.V("C03", "panic", "CalculatePower(%v) panicked: %v", h, perr)
		}
		ref := Rank(h)
		if implCatName[cat] != CatName[ref.Cat] {
			return vlib.V("C03", "category/"+CatName[ref.Cat], "hand %v is %s, evaluator says %s", h, CatName[ref.Cat], implCatName[cat])
		}
		sc = append(sc, s)
		keys = append(keys, ref.Key(order))
	}
	if len(c.Hands) == 2 {
		a, b := c.Hands[0], c.Hands[1]
		switch {
		case keys[0] == keys[1] && sc[0] != sc[1]:
			return vlib.V("C03", "tie/"+CatName[Rank(a).Cat], "hands %v and %v tie but score %d vs %d", a, b, sc[0], sc[1])
		case keys[0] < keys[1] && !(sc[0] < sc[1]):
			return vlib.V("C03", "order/"+CatName[Rank(a).Cat]+"<"+CatName[Rank(b).Cat], "hand %v loses to %v but scores %d vs %d", a, b, sc[0], sc[1])
		case keys[0] > keys[1] && !(sc[0] > sc[1]):
			return vlib.V("C03", "order/"+CatName[Rank(b).Cat]+"<"+CatName[Rank(a).Cat], "hand %v beats %v but scores %d vs %d", a, b, sc[0], sc[1])
		}
	}
	return nil
}

// shippedTable returns the ranking table of a variant the way callers obtain
// it. Both constructors are called every time (short deck first), as a process
// that serves both variants does.
func shippedTable(short bool) []combination.Combination {
	sd := pokerface.NewShortDeckGameOptions()
	std := pokerface.NewStardardGameOptions()
	if short {
		return sd.CombinationPowers
	}
	return std.CombinationPowers
}

var orderSeed = vlib.EnvInt("VERIF_SEED", 1) & 0xffff

func enumeratePass(shortDeck, shortTable bool, st *vlib.Stats, mu *sync.Mutex) (*c03Case, *vlib.Violation) {
	deck := Deck(shortDeck)
	table, order := Table(shortTable)
	// the "shipped ranking tables" as a caller gets them: from the option
	// constructors, both of which have been used in this process
	table = shippedTable(shortTable)
	open := shortDeck || shortTable
	n := len(deck)
	workers := runtime.NumCPU()
	type res struct {
		classes map[uint64]*classInfo
		evals   int64
		nontriv int64
		skipped int64
		bad     *c03Case
		v       *vlib.Violation
	}
	results := make([]res, n)
	var wg sync.WaitGroup
	jobs := make(chan int, n)
	for a := 0; a < n; a++ {
		jobs <- a
	}
	close(jobs)
	for w := 0; w < workers; w++ {
		wg.Add(1)
		go func() {
			defer wg.Done()
			for a := range jobs {
				r := res{classes: map[uint64]*classInfo{}}
				hand := make([]string, 5)
				for b := a + 1; b < n && r.v == nil; b++ {
					for c := b + 1; c < n && r.v == nil; c++ {
						for d := c + 1; d < n && r.v == nil; d++ {
							for e := d + 1; e < n; e++ {
								// the five cards are handed over in an order that varies from hand to
								// hand and with VERIF_SEED, so that the exhaustive pass does not only
								// ever see ascending deck order
								pm := perms5[(a*7+b*11+c*13+d*17+e*19+orderSeed)%120]
								sorted5 := [5]string{deck[a], deck[b], deck[c], deck[d], deck[e]}
								for k := 0; k < 5; k++ {
									hand[k] = sorted5[pm[k]]
								}
								if open && IsA9876(hand) {
									r.skipped++
									continue
								}
								r.evals++
								s, cat, perr := score(table, hand)
								ref := Rank(hand)
								if perr != nil || implCatName[cat] != CatName[ref.Cat] {
									cc := c03Case{shortDeck, shortTable, [][]string{append([]string{}, hand...)}}
									r.bad, r.v = &cc, checkC03(cc)
									break
								}
								if ref.Cat != HighCard {
									r.nontriv++
								}
								k := ref.Key(order)
								ci := r.classes[k]
								if ci == nil {
									ci = &classInfo{key: k, min: s, max: s, exMin: append([]string{}, hand...), exMax: append([]string{}, hand...)}
									r.classes[k] = ci
								}
								ci.n++
								if s < ci.min {
									ci.min, ci.exMin = s, append([]string{}, hand...)
								}
								if s > ci.max {
									ci.max, ci.exMax = s, append([]string{}, hand...)
								}
							}
						}
					}
				}
				results[a] = r
			}
		}()
	}
	wg.Wait()
	all := map[uint64]*classInfo{}
	var evals, nontriv, skipped int64
	for _, r := range results {
		if r.v != nil {
			return r.bad, r.v
		}
		evals += r.evals
		nontriv += r.nontriv
		skipped += r.skipped
		for k, ci := range r.classes {
			o := all[k]
			if o == nil {
				all[k] = ci
				continue
			}
			o.n += ci.n
			if ci.min < o.min {
				o.min, o.exMin = ci.min, ci.exMin
			}
			if ci.max > o.max {
				o.max, o.exMax = ci.max, ci.exMax
			}
		}
	}
	keys := make([]uint64, 0, len(all))
	for k := range all {
		keys = append(keys, k)
	}
	sort.Slice(keys, func(i, j int) bool { return keys[i] < keys[j] })
	mu.Lock()
	name := fmt.Sprintf("deck%d/%s", n, map[bool]string{false: "standard-table", true: "shortdeck-table"}[shortTable])
	st.Evaluations += evals
	st.Count("hands:"+name, evals)
	st.Count("classes:"+name, int64(len(keys)))
	st.Count("distinct_nontrivial_enumerated", nontriv)
	st.Count("skipped_A9876:"+name, skipped)
	st.Count("adjacent_class_comparisons", int64(len(keys)-1))
	mu.Unlock()
	var prev *classInfo
	for _, k := range keys {
		ci := all[k]
		if ci.min != ci.max {
			cc := c03Case{shortDeck, shortTable, [][]string{ci.exMin, ci.exMax}}
			return &cc, checkC03(cc)
		}
		if prev != nil && !(prev.max < ci.min) {
			cc := c03Case{shortDeck, shortTable, [][]string{prev.exMax, ci.exMin}}
			return &cc, checkC03(cc)
		}
		prev = ci
	}
	// samples: lowest, a middle and the highest class
	mu.Lock()
	for _, i := range []int{0, len(keys) / 2, len(keys) - 1} {
		ci := all[keys[i]]
		st.Sample(map[string]interface{}{"pass": name, "hand": ci.exMin, "reference_category": CatName[Rank(ci.exMin).Cat], "score": ci.min, "hands_in_class": ci.n})
	}
	mu.Unlock()
	return nil, nil
}

func TestC03Exhaustive(t *testing.T) {
	st := vlib.NewStats("exhaustive")
	st.Exhaustive = true
	var mu sync.Mutex
	defer func() { st.Write(os.Getenv("VERIF_OUT")) }()
	for _, p := range [][2]bool{{false, false}, {false, true}, {true, false}, {true, true}} {
		bad, v := enumeratePass(p[0], p[1], st, &mu)
		if v != nil {
			st.Violations++
			b, _ := json.Marshal(bad)
			path := vlib.WriteReplay(&vlib.Replay{Property: "C03", Harness: "cards", Kind: "c03", Case: b, Violation: v})
			fmt.Printf("HARNESS-VIOLATION property=C03 signature=%q replay=%s\n   %s\n", v.Signature, path, v.Detail)
			t.Fail()
			return
		}
	}
}

// ---------------------------------------------------------------------------
// C03 — metamorphic: the score does not depend on the order in which the five
// cards are given, nor on which suits they are (suit relabelling).
// ---------------------------------------------------------------------------

type c03PermCase struct {
	ShortDeck  bool     `json:"short_deck"`
	ShortTable bool     `json:"short_table"`
	Hand       []string `json:"hand"`
	Other      []string `json:"other"` // permuted / relabelled version
}

func checkC03Perm(c c03PermCase) *vlib.Violation {
	table := shippedTable(c.ShortTable)
	if len(c.Other) == 0 {
		// recorded by the purity part of the stage: partial hands first, then the hand
		for mask := 1; mask < 31; mask++ {
			var sub []string
			for k := 0; k < 5 && k < len(c.Hand); k++ {
				if mask&(1<<uint(k)) != 0 {
					sub = append(sub, c.Hand[k])
				}
			}
			score(table, sub)
		}
		return checkC03(c03Case{ShortDeck: c.ShortDeck, ShortTable: c.ShortTable, Hands: [][]string{c.Hand}})
	}
	s1, c1, e1 := score(table, c.Hand)
	s2, c2, e2 := score(table, c.Other)
	if e1 != nil || e2 != nil {
		return vlib.V("C03", "panic", "CalculatePower panicked on %v / %v: %v %v", c.Hand, c.Other, e1, e2)
	}
	if s1 != s2 || c1 != c2 {
		return vlib.V("C03", "metamorphic/"+CatName[Rank(c.Hand).Cat], "%v scores %d (%s) but the same hand given as %v scores %d (%s)", c.Hand, s1, implCatName[c1], c.Other, s2, implCatName[c2])
	}
	return nil
}

var perms5 = func() [][]int {
	var out [][]int
	var rec func(cur []int, used int)
	rec = func(cur []int, used int) {
		if len(cur) == 5 {
			out = append(out, append([]int{}, cur...))
			return
		}
		for i := 0; i < 5; i++ {
			if used&(1<<uint(i)) == 0 {
				rec(append(cur, i), used|1<<uint(i))
			}
		}
	}
	rec(nil, 0)
	return out
}()

func TestC03Perm(t *testing.T) {
	st := vlib.NewStats("metamorphic")
	vlib.RunRapid(t, "cards", "c03perm", st, func(rt *rapid.T) vlib.Outcome {
		c := c03PermCase{ShortDeck: rapid.Bool().Draw(rt, "shortDeck"), ShortTable: rapid.Bool().Draw(rt, "shortTable")}
		deck := Deck(c.ShortDeck)
		// themed draw so that pairs/straights/flushes are frequent
		theme := rapid.IntRange(0, 3).Draw(rt, "theme")
		idx := map[int]bool{}
		for len(c.Hand) < 5 {
			var i int
			switch {
			case theme == 1 && len(c.Hand) > 0: // same suit as the first card
				s := c.Hand[0][0]
				cands := []int{}
				for j, d := range deck {
					if d[0] == s && !idx[j] {
						cands = append(cands, j)
					}
				}
				i = cands[rapid.IntRange(0, len(cands)-1).Draw(rt, "i")]
			case theme == 2 && len(c.Hand) > 0: // ranks close to the first card
				r0 := rankOf[c.Hand[0][1]]
				cands := []int{}
				for j, d := range deck {
					dr := rankOf[d[1]]
					if !idx[j] && (dr-r0 <= 4 && r0-dr <= 4 || dr == 14) {
						cands = append(cands, j)
					}
				}
				i = cands[rapid.IntRange(0, len(cands)-1).Draw(rt, "i")]
			case theme == 3 && len(c.Hand) > 0 && rapid.Bool().Draw(rt, "rep"): // repeat a rank
				r0 := c.Hand[rapid.IntRange(0, len(c.Hand)-1).Draw(rt, "which")][1]
				cands := []int{}
				for j, d := range deck {
					if d[1] == r0 && !idx[j] {
						cands = append(cands, j)
					}
				}
				if len(cands) == 0 {
					continue
				}
				i = cands[rapid.IntRange(0, len(cands)-1).Draw(rt, "i")]
			default:
				i = rapid.IntRange(0, len(deck)-1).Draw(rt, "i")
				if idx[i] {
					continue
				}
			}
			idx[i] = true
			c.Hand = append(c.Hand, deck[i])
		}
		st.Class("category:" + CatName[Rank(c.Hand).Cat])
		// The evaluator must be a pure function of the five cards: the engine also
		// hands it partial hands (hole cards alone before the flop), so every proper
		// subset of the hand is evaluated first - in this process, right before - and
		// the hand must still get its category and its place in the order.
		table := shippedTable(c.ShortTable)
		for mask := 1; mask < 31; mask++ {
			var sub []string
			for k := 0; k < 5; k++ {
				if mask&(1<<uint(k)) != 0 {
					sub = append(sub, c.Hand[k])
				}
			}
			score(table, sub)
		}
		if v := checkC03(c03Case{ShortDeck: c.ShortDeck, ShortTable: c.ShortTable, Hands: [][]string{c.Hand}}); v != nil {
			v.Signature = "after-partial-hands/" + v.Signature
			return vlib.Outcome{Case: c, Violation: v}
		}
		suitPerm := rapid.Permutation([]byte(SuitChars)).Draw(rt, "suits")
		relabel := rapid.Bool().Draw(rt, "relabel")
		var first *vlib.Violation
		nperm := 0
		for _, p := range perms5 {
			o := make([]string, 5)
			for k, j := range p {
				card := c.Hand[j]
				if relabel {
					card = string([]byte{suitPerm[indexByte(SuitChars, card[0])], card[1]})
				}
				o[k] = card
			}
			c.Other = o
			nperm++
			if v := checkC03Perm(c); v != nil {
				first = v
				break
			}
		}
		st.Evaluations += int64(nperm)
		if Rank(c.Hand).Cat != HighCard {
			h := append([]string{}, c.Hand...)
			sort.Strings(h)
			st.NonTrivial(vlib.Hash(h, c.ShortTable, relabel, string(suitPerm)))
		}
		st.Sample(map[string]interface{}{"hand": c.Hand, "short_table": c.ShortTable, "relabelled": relabel, "orders_tried": nperm})
		return vlib.Outcome{Case: c, Violation: first}
	})
}

func indexByte(s string, b byte) int {
	for i := 0; i < len(s); i++ {
		if s[i] == b {
			return i
		}
	}
	return 0
}

// ---------------------------------------------------------------------------

func TestReplay(t *testing.T) {
	path := os.Getenv("VERIF_REPLAY")
	if path == "" {
		t.Skip("no VERIF_REPLAY")
	}
	r, err := vlib.ReadReplay(path)
	if err != nil {
		t.Fatalf("replay file: %v", err)
	}
	var v *vlib.Violation
	switch r.Kind {
	case "c03":
		var c c03Case
		json.Unmarshal(r.Case, &c)
		v = checkC03(c)
	case "c03perm":
		var c c03PermCase
		json.Unmarshal(r.Case, &c)
		v = checkC03Perm(c)
	case "c10direct":
		var c c10Case
		json.Unmarshal(r.Case, &c)
		v = checkC10Direct(c)
	default:
		t.Fatalf("unknown replay kind %q", r.Kind)
	}
	vlib.ReportReplay(t, r, v)
}
