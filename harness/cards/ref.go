// Package cards: reference five-card ranker (independent of the code under
// test) and the helpers shared by the C03 / C10 checks.
package cards

import (
	"sort"
	"strings"

	"github.com/weedbox/pokerface/combination"
)

// Categories in the harness' own numbering (not the implementation's).
const (
	HighCard = iota
	Pair
	TwoPair
	Trips
	Straight
	Flush
	FullHouse
	Quads
	StraightFlush
)

var CatName = []string{"HighCard", "Pair", "TwoPair", "ThreeOfAKind", "Straight", "Flush", "FullHouse", "FourOfAKind", "StraightFlush"}

// position of each category in the ranking order of a variant, lowest first
var OrderStandard = []int{HighCard, Pair, TwoPair, Trips, Straight, Flush, FullHouse, Quads, StraightFlush}
var OrderShort = []int{HighCard, Pair, TwoPair, Trips, Straight, FullHouse, Flush, Quads, StraightFlush}

var rankOf = map[byte]int{'2': 2, '3': 3, '4': 4, '5': 5, '6': 6, '7': 7, '8': 8, '9': 9, 'T': 10, 'J': 11, 'Q': 12, 'K': 13, 'A': 14}

const RankChars = "23456789TJQKA"
const SuitChars = "SHDC"

// Deck52 / Deck36 in a fixed order of the harness' own.
func Deck(short bool) []string {
	out := []string{}
	for s := 0; s < 4; s++ {
		for r := 2; r <= 14; r++ {
			if short && r < 6 {
				continue
			}
			out = append(out, string([]byte{SuitChars[s], RankChars[r-2]}))
		}
	}
	return out
}

type RefHand struct {
	Cat int
	Tie [5]int // tie-break vector, most significant first, unused = 0
}

// Rank a five-card hand by the rules of poker.
func Rank(cards []string) RefHand {
	var ranks [5]int
	flush := true
	for i, c := range cards {
		ranks[i] = rankOf[c[1]]
		if c[0] != cards[0][0] {
			flush = false
		}
	}
	cnt := map[int]int{}
	for _, r := range ranks {
		cnt[r]++
	}
	type grp struct{ r, n int }
	gs := make([]grp, 0, 5)
	for r, n := range cnt {
		gs = append(gs, grp{r, n})
	}
	sort.Slice(gs, func(i, j int) bool {
		if gs[i].n != gs[j].n {
			return gs[i].n > gs[j].n
		}
		return gs[i].r > gs[j].r
	})
	var h RefHand
	straightHigh := 0
	if len(gs) == 5 {
		mx, mn := gs[0].r, gs[4].r
		if mx-mn == 4 {
			straightHigh = mx
		} else if mx == 14 && gs[1].r == 5 && gs[4].r == 2 {
			straightHigh = 5 // the wheel: ace plays low
		}
	}
	switch {
	case straightHigh > 0 && flush:
		h.Cat = StraightFlush
	case gs[0].n == 4:
		h.Cat = Quads
	case gs[0].n == 3 && gs[1].n == 2:
		h.Cat = FullHouse
	case flush:
		h.Cat = Flush
	case straightHigh > 0:
		h.Cat = Straight
	case gs[0].n == 3:
		h.Cat = Trips
	case gs[0].n == 2 && gs[1].n == 2:
		h.Cat = TwoPair
	case gs[0].n == 2:
		h.Cat = Pair
	default:
		h.Cat = HighCard
	}
	if h.Cat == Straight || h.Cat == StraightFlush {
		h.Tie[0] = straightHigh
	} else {
		for i, g := range gs {
			h.Tie[i] = g.r
		}
	}
	return h
}

// Key orders hands of one variant: category position first, then tie-break.
func (h RefHand) Key(order []int) uint64 {
	pos := 0
	for i, c := range order {
		if c == h.Cat {
			pos = i
		}
	}
	k := uint64(pos)
	for _, t := range h.Tie {
		k = k<<4 | uint64(t)
	}
	return k
}

// IsA9876: the rank set whose class the property leaves open in short deck.
func IsA9876(cards []string) bool {
	m := 0
	for _, c := range cards {
		m |= 1 << uint(rankOf[c[1]])
	}
	return m == (1<<14 | 1<<9 | 1<<8 | 1<<7 | 1<<6)
}

func Table(short bool) ([]combination.Combination, []int) {
	if short {
		return combination.CombinationPowerShortDeck, OrderShort
	}
	return combination.CombinationPowerStandard, OrderStandard
}

// Admissible enumerates the admissible five-card selections itself.
func Admissible(hole, board []string, required int) [][]string {
	var out [][]string
	if required == 0 {
		all := append(append([]string{}, hole...), board...)
		chooseK(all, 5, func(sel []string) { out = append(out, append([]string{}, sel...)) })
		return out
	}
	chooseK(hole, required, func(h []string) {
		hh := append([]string{}, h...)
		chooseK(board, 5-required, func(b []string) {
			out = append(out, append(append([]string{}, hh...), b...))
		})
	})
	return out
}

func chooseK(xs []string, k int, f func([]string)) {
	if k > len(xs) {
		return
	}
	sel := make([]string, 0, k)
	var rec func(start int)
	rec = func(start int) {
		if len(sel) == k {
			f(sel)
			return
		}
		for i := start; i < len(xs); i++ {
			sel = append(sel, xs[i])
			rec(i + 1)
			sel = sel[:len(sel)-1]
		}
	}
	rec(0)
}

func setKey(cards []string) string {
	c := append([]string{}, cards...)
	sort.Strings(c)
	return strings.Join(c, "")
}
