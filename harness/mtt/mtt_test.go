package mtt

import (
	"encoding/json"
	"fmt"
	"os"
	"testing"

	"pgregory.net/rapid"

	"verif/vlib"
)

func nonTrivial(prop string, w *World) bool {
	switch prop {
	case "C09":
		return w.Facts["released"] || w.Facts["received"] || w.Facts["table-broken"]
	case "C19":
		return !(w.Max == 9 && w.Min == 6) && w.nextT >= 2
	case "C20":
		return w.Facts["settled-with-moves"]
	}
	return false
}

func drawSettings(rt *rapid.T) (int, int) {
	if rapid.IntRange(0, 2).Draw(rt, "default") == 0 {
		return 9, 6
	}
	max := rapid.IntRange(2, 10).Draw(rt, "max")
	min := rapid.IntRange(2, max).Draw(rt, "min")
	return max, min
}

// TestHistories: G-MTT state machine.
func TestHistories(t *testing.T) {
	prop := vlib.Prop()
	st := vlib.NewStats("histories")
	maxSweeps := 0
	defer func() { _ = maxSweeps }()
	vlib.RunRapid(t, "mtt", "history", st, func(rt *rapid.T) vlib.Outcome {
		max, min := drawSettings(rt)
		w := NewWorld(prop, max, min, st)
		// another tournament may run in the same process: it registers, starts and
		// syncs on its own; nothing of it may show in this one
		var sib *World
		sibNames := 0
		if rapid.IntRange(0, 2).Draw(rt, "siblingTournament") == 0 {
			sib = NewWorld("", max, min, vlib.NewStats("sibling"))
			sib.namePrefix = "other"
			w.Facts["sibling-tournament"] = true
		}
		var ops []MOp
		n := rapid.IntRange(1, 60).Draw(rt, "length")
		for i := 0; i < n && w.V == nil && !w.Facts["aborted"]; i++ {
			if sib != nil && rapid.IntRange(0, 2).Draw(rt, "siblingActs") == 0 {
				cnt := rapid.IntRange(0, 2*max).Draw(rt, "siblingAdd")
				ops = append(ops, MOp{K: "sibling-add", N: cnt})
				sib.Add(cnt)
				if sib.Status == 0 && rapid.Bool().Draw(rt, "siblingStart") {
					ops = append(ops, MOp{K: "sibling-status", N: 1})
					sib.SetStatus(1)
				}
				sibNames += cnt
				w.Check("sibling-call")
				continue
			}
			k := rapid.IntRange(0, 19).Draw(rt, "op")
			if k == 18 && rapid.IntRange(0, 2).Draw(rt, "emptyRelease") == 0 {
				id := "nosuch0"
				if ids := w.TableIDs(); len(ids) > 0 && rapid.Bool().Draw(rt, "liveTable") {
					id = ids[rapid.IntRange(0, len(ids)-1).Draw(rt, "relTable")]
				}
				ops = append(ops, MOp{K: "release-nothing", Table: id})
				w.ReleaseNothing(id)
				continue
			}
			if k == 19 && len(w.Elim) > 0 {
				cnt := rapid.IntRange(1, 3).Draw(rt, "reEntries")
				ops = append(ops, MOp{K: "re-enter", N: cnt})
				w.ReEnter(cnt)
				continue
			}
			if k == 17 && len(w.Tables) > 0 && w.Status > 0 {
				// hands in which nobody busts: every table reports after every hand and
				// carries out what it is told, for a drawn number of hands (a regulator
				// that books something at every report shows it only after a while)
				hands := rapid.IntRange(1, 12).Draw(rt, "idleHands")
				if rapid.IntRange(0, 3).Draw(rt, "longIdle") == 0 {
					hands = rapid.IntRange(13, 40).Draw(rt, "idleHandsLong")
				}
				rot := rapid.IntRange(0, 9).Draw(rt, "idleRot")
				ops = append(ops, MOp{K: "idle-hands", N: hands, Rot: rot})
				w.IdleHands(hands, rot)
				continue
			}
			switch {
			case k < 6:
				cnt := rapid.IntRange(0, 3).Draw(rt, "few")
				if rapid.IntRange(0, 3).Draw(rt, "batch") == 0 {
					cnt = rapid.IntRange(0, 3*max).Draw(rt, "many")
				}
				ops = append(ops, MOp{K: "add", N: cnt})
				w.Add(cnt)
			case k < 8:
				if w.Status < 2 {
					next := w.Status + 1
					if w.Status == 0 && rapid.IntRange(0, 9).Draw(rt, "skipNormal") == 0 {
						next = 2
					}
					if w.Status == 0 || rapid.IntRange(0, 2).Draw(rt, "advance") == 0 {
						ops = append(ops, MOp{K: "status", N: next})
						w.SetStatus(next)
					}
				}
			case k < 9:
				out := rapid.IntRange(0, 2).Draw(rt, "out")
				ops = append(ops, MOp{K: "sync-unknown", Out: out})
				w.SyncUnknown(out)
			default:
				ids := w.TableIDs()
				if len(ids) == 0 {
					continue
				}
				id := ids[rapid.IntRange(0, len(ids)-1).Draw(rt, "table")]
				out := 0
				if nn := len(w.Tables[id]); nn > 0 && rapid.Bool().Draw(rt, "eliminate") {
					out = rapid.IntRange(0, nn).Draw(rt, "out")
					if out > 2 && rapid.Bool().Draw(rt, "fewOut") {
						out = rapid.IntRange(1, 2).Draw(rt, "outFew")
					}
				}
				rot := rapid.IntRange(0, 9).Draw(rt, "rot")
				ops = append(ops, MOp{K: "sync", Table: id, Out: out, Rot: rot})
				w.Sync(id, out, rot)
			}
		}
		if w.V == nil && !w.Facts["aborted"] && w.Status > 0 && (prop == "C20" || rapid.IntRange(0, 3).Draw(rt, "settle") == 0) {
			seed := rapid.IntRange(0, 1000).Draw(rt, "order")
			ops = append(ops, MOp{K: "settle", Rot: seed})
			w.Settle(orderFn(seed))
		}
		c := &Case{Max: max, Min: min, Ops: ops, Log: w.Log}
		st.Evaluations++
		st.Count("calls", int64(len(ops)))
		if w.Facts["aborted"] {
			st.Aborted++
		}
		for k, on := range w.Facts {
			if on {
				st.Class(k)
			}
		}
		st.ClassIf(max == 9 && min == 6, "settings-9/6")
		st.ClassIf(w.nextT >= 2, "tables>=2")
		st.ClassIf(w.nextT >= 4, "tables>=4")
		if nonTrivial(prop, w) {
			st.NonTrivial(vlib.Hash(max, min, ops))
			st.Sample(map[string]interface{}{"max_per_table": max, "min_initial": min, "history": w.Log})
		}
		return vlib.Outcome{Case: c, Violation: w.V}
	})
}

// orderFn: a deterministic family of sweep orders (rotation, reversal, interleave).
func orderFn(seed int) func(ids []string, sweep int) []string {
	return func(ids []string, sweep int) []string {
		n := len(ids)
		if n == 0 {
			return ids
		}
		out := make([]string, 0, n)
		k := (seed + sweep*(seed%3)) % n
		for i := 0; i < n; i++ {
			out = append(out, ids[(k+i)%n])
		}
		if seed%2 == 1 {
			for i, j := 0, n-1; i < j; i, j = i+1, j-1 {
				out[i], out[j] = out[j], out[i]
			}
		}
		if seed%5 == 0 && n > 2 {
			out[0], out[n/2] = out[n/2], out[0]
		}
		return out
	}
}

// replay re-executes a recorded history; the regulator iterates Go maps, so the
// same calls may take another course: a diverged attempt is retried.
func replayCase(c *Case, prop string) *vlib.Violation {
	for attempt := 0; attempt < 256; attempt++ {
		w := NewWorld(prop, c.Max, c.Min, vlib.NewStats("replay"))
		var sib *World
		diverged := false
		for _, op := range c.Ops {
			if w.V != nil || w.Facts["aborted"] {
				break
			}
			switch op.K {
			case "add":
				w.Add(op.N)
			case "status":
				w.SetStatus(op.N)
			case "sync-unknown":
				w.SyncUnknown(op.Out)
			case "sync":
				if _, ok := w.Tables[op.Table]; !ok {
					diverged = true
				} else {
					w.Sync(op.Table, op.Out, op.Rot)
				}
			case "settle":
				w.Settle(orderFn(op.Rot))
			case "re-enter":
				w.ReEnter(op.N)
			case "idle-hands":
				w.IdleHands(op.N, op.Rot)
			case "release-nothing":
				w.ReleaseNothing(op.Table)
			case "sibling-add":
				if sib == nil {
					sib = NewWorld("", c.Max, c.Min, vlib.NewStats("sibling"))
					sib.namePrefix = "other"
				}
				sib.Add(op.N)
				w.Check("sibling-call")
			case "sibling-status":
				if sib != nil {
					sib.SetStatus(op.N)
				}
			}
			if diverged {
				break
			}
		}
		if w.V != nil {
			return w.V
		}
		if !diverged && attempt >= 31 {
			break
		}
	}
	return nil
}

// ---------------------------------------------------------------------------
// C19: the complete settings grid
// ---------------------------------------------------------------------------

type gridCase struct {
	Max   int `json:"max_per_table"`
	Min   int `json:"min_initial"`
	N     int `json:"registrants"`
	Batch int `json:"batch"` // 0 = all at once before the start; k>0 = start first, then batches of k
}

func runGrid(c *gridCase, prop string, st *vlib.Stats) *World {
	w := NewWorld(prop, c.Max, c.Min, st)
	if c.Batch == 0 {
		w.Add(c.N)
		w.SetStatus(1)
	} else {
		w.SetStatus(1)
		for left := c.N; left > 0 && w.V == nil; left -= c.Batch {
			k := c.Batch
			if k > left {
				k = left
			}
			w.Add(k)
		}
	}
	if w.V == nil && prop != "C19" {
		w.Settle(orderFn(0))
	}
	return w
}

func TestSettingsGrid(t *testing.T) {
	prop := vlib.Prop()
	st := vlib.NewStats("settings-grid")
	st.Exhaustive = true
	defer func() { st.Write(os.Getenv("VERIF_OUT")) }()
	nt := int64(0)
	for max := 2; max <= 10; max++ {
		for min := 2; min <= max; min++ {
			for n := 0; n <= 6*max; n++ {
				for _, batch := range []int{0, 1, 3, max} {
					c := &gridCase{Max: max, Min: min, N: n, Batch: batch}
					// the regulator iterates maps: a few repetitions per point
					for rep := 0; rep < 3; rep++ {
						w := runGrid(c, prop, st)
						st.Evaluations++
						if nonTrivial(prop, w) && rep == 0 {
							nt++
						}
						if w.V != nil {
							st.Violations++
							b, _ := json.Marshal(c)
							p := vlib.WriteReplay(&vlib.Replay{Property: prop, Harness: "mtt", Kind: "grid", Case: b, Violation: w.V})
							fmt.Printf("HARNESS-VIOLATION property=%s signature=%q replay=%s\n   %s\n", prop, w.V.Signature, p, w.V.Detail)
							t.Fail()
							return
						}
					}
				}
			}
		}
	}
	// large fields (the grid above ends at six tables): 7..112 full tables, and the
	// same field one player short, registered at once before the start
	{
		for max := 2; max <= 10; max++ {
			for tables := 7; tables <= 112; tables++ {
				for _, short := range []int{0, 1} {
					c := &gridCase{Max: max, Min: max - max/3, N: tables*max - short, Batch: 0}
					w := runGrid(c, prop, st)
					st.Evaluations++
					st.Class("large-field")
					if w.V != nil {
						st.Violations++
						b, _ := json.Marshal(c)
						p := vlib.WriteReplay(&vlib.Replay{Property: prop, Harness: "mtt", Kind: "grid", Case: b, Violation: w.V})
						fmt.Printf("HARNESS-VIOLATION property=%s signature=%q replay=%s\n   %s\n", prop, w.V.Signature, p, w.V.Detail)
						t.Fail()
						return
					}
				}
			}
		}
	}
	st.Count("distinct_nontrivial_enumerated", nt)
	st.Sample(gridCase{Max: 8, Min: 6, N: 392, Batch: 0})
	st.Sample(gridCase{Max: 6, Min: 5, N: 13, Batch: 0})
	st.Sample(gridCase{Max: 10, Min: 2, N: 60, Batch: 3})
}

func TestReplay(t *testing.T) {
	path := os.Getenv("VERIF_REPLAY")
	if path == "" {
		t.Skip("no VERIF_REPLAY")
	}
	r, err := vlib.ReadReplay(path)
	if err != nil {
		t.Fatalf("replay file: %v", err)
	}
	var v *vlib.Violation
	switch r.Kind {
	case "history":
		var c Case
		json.Unmarshal(r.Case, &c)
		v = replayCase(&c, r.Property)
	case "grid":
		var c gridCase
		json.Unmarshal(r.Case, &c)
		for i := 0; i < 32 && v == nil; i++ {
			v = runGrid(&c, r.Property, vlib.NewStats("replay")).V
		}
	default:
		t.Fatalf("unknown replay kind %q", r.Kind)
	}
	vlib.ReportReplay(t, r, v)
}
