// Package mtt: world-model checks of the tournament regulator (C09, C19, C20).
//
// The world plays the part of the competition around the regulator: it owns the
// real tables (who sits where), carries out every instruction the regulator
// gives (through the callbacks and through the results of SyncState) and
// compares the regulator's books with reality after every call.
package mtt

import (
	"fmt"
	"sort"
	"strings"

	"github.com/weedbox/pokerface/regulator"

	"verif/vlib"
)

// MOp is one operation of a tournament history.
type MOp struct {
	K     string `json:"k"`               // add | status | sync | sync-unknown | release-unknown | settle
	N     int    `json:"n,omitempty"`     // add: number of players; status: target status
	Table string `json:"table,omitempty"` // sync: table id
	Out   int    `json:"out,omitempty"`   // sync: eliminations reported
	Rot   int    `json:"rot,omitempty"`   // sync: which players are eliminated / released (rotation of the roster); settle: order seed
	Res   string `json:"res,omitempty"`   // observed result, informational
}

type Case struct {
	Max int      `json:"max_per_table"`
	Min int      `json:"min_initial"`
	Ops []MOp    `json:"ops"`
	Log []string `json:"observed_history,omitempty"`
}

type World struct {
	Prop               string
	R                  regulator.Regulator
	Max, Min           int
	Status             int
	Reg                map[string]bool
	Elim               map[string]bool
	Queue              map[string]bool
	Tables             map[string][]string
	Dead               map[string]bool
	nextT, nextP       int
	Log                []string
	V                  *vlib.Violation // first violation of the active property
	initialAlloc       bool
	tablesOpenedInCall int
	Facts              map[string]bool
	St                 *vlib.Stats
	MaxSweeps          int
	namePrefix         string // player / table names of a sibling tournament differ
	NoLend             bool   // hand plain fresh slices to the regulator
}

func (w *World) fail(prop, sig, format string, args ...interface{}) {
	if prop != w.Prop || w.V != nil {
		return
	}
	w.V = vlib.V(prop, sig, "max=%d min=%d: %s\n   history: %s", w.Max, w.Min, fmt.Sprintf(format, args...), strings.Join(w.Log, " | "))
}

func (w *World) where(p string) []string {
	out := []string{}
	if w.Queue[p] {
		out = append(out, "queue")
	}
	ids := w.TableIDs()
	for _, t := range ids {
		for _, q := range w.Tables[t] {
			if q == p {
				out = append(out, t)
			}
		}
	}
	return out
}

// takeFromQueue: every hand-out must take players that were waiting.
func (w *World) takeFromQueue(ps []string, ctx string) {
	seen := map[string]bool{}
	for _, p := range ps {
		if seen[p] {
			w.fail("C09", "handed-out-twice/"+ctx, "player %s appears twice in one hand-out (%s)", p, ctx)
		}
		seen[p] = true
		if !w.Queue[p] {
			sig := "handed-out-not-waiting/" + ctx
			if !w.Reg[p] {
				sig = "handed-out-unknown/" + ctx
			}
			w.fail("C09", sig, "%s hands out %s who is not in the waiting queue (is in %v)", ctx, p, w.where(p))
		}
		delete(w.Queue, p)
	}
}

func NewWorld(prop string, max, min int, st *vlib.Stats) *World {
	w := &World{Prop: prop, Max: max, Min: min, Reg: map[string]bool{}, Elim: map[string]bool{}, Queue: map[string]bool{}, Tables: map[string][]string{}, Dead: map[string]bool{}, Facts: map[string]bool{}, St: st}
	optA, optB := regulator.MaxPlayersPerTable(max), regulator.MinInitialPlayers(min)
	if (max+min)%2 == 1 {
		optA, optB = optB, optA // the order in which options are given must not matter
	}
	w.R = regulator.NewRegulator(optA, optB,
		regulator.WithRequestTableFn(func(players []string) (string, error) {
			w.nextT++
			id := fmt.Sprintf("%st%d", w.namePrefix, w.nextT)
			w.Log = append(w.Log, fmt.Sprintf("  newtable(%s,%d)", id, len(players)))
			if w.Status == 0 {
				w.fail("C19", "table-before-start", "a table is requested while the competition is pending")
			}
			live := len(w.Reg) - len(w.Elim)
			if len(w.Tables) == 0 && len(w.Dead) == 0 && live < w.Min {
				w.fail("C19", "table-before-minimum", "first table requested with %d registered players, minimum is %d", live, w.Min)
			}
			if len(players) > w.Max {
				w.fail("C19", "new-table-over-capacity", "a new table is requested for %d players, capacity is %d", len(players), w.Max)
			}
			if w.initialAlloc && len(players) < w.Min {
				w.fail("C19", "initial-table-under-minimum", "the initial allocation opens a table with %d players, minimum is %d", len(players), w.Min)
			}
			w.tablesOpenedInCall++
			w.takeFromQueue(players, "new-table")
			// the table keeps the very list it was handed and appends to it later
			// (what the repository's own tests do); a regulator whose lists share
			// storage with each other or with its queue is found out by the names
			if w.NoLend {
				w.Tables[id] = append([]string{}, players...)
			} else {
				w.Tables[id] = players
			}
			return id, nil
		}),
		regulator.WithAssignPlayersFn(func(id string, players []string) error {
			w.Log = append(w.Log, fmt.Sprintf("  assign(%s,%d)", id, len(players)))
			if _, ok := w.Tables[id]; !ok {
				if w.Dead[id] {
					w.fail("C20", "broken-table-receives-players", "%d player(s) are assigned to table %s, which was told to break and has handed its players back", len(players), id)
				}
				w.fail("C09", "assign-to-unknown-table", "players are assigned to table %s which does not exist", id)
				return nil
			}
			w.takeFromQueue(players, "assign")
			w.Tables[id] = append(w.Tables[id], players...)
			if len(w.Tables[id]) > w.Max {
				w.fail("C19", "top-up-over-capacity", "table %s holds %d players after a top-up, capacity is %d", id, len(w.Tables[id]), w.Max)
			}
			return nil
		}))
	return w
}

func (w *World) TableIDs() []string {
	ids := make([]string, 0, len(w.Tables))
	for id := range w.Tables {
		ids = append(ids, id)
	}
	sort.Slice(ids, func(i, j int) bool {
		if len(ids[i]) != len(ids[j]) {
			return len(ids[i]) < len(ids[j])
		}
		return ids[i] < ids[j]
	})
	return ids
}

type snapshot struct {
	players, tables int
	queue           string
	rosters         string
}

func (w *World) snap() snapshot {
	s := snapshot{players: w.R.GetPlayerCount(), tables: w.R.GetTableCount(), queue: strings.Join(regulator.VerifWaitingQueue(w.R), ",")}
	for _, id := range w.TableIDs() {
		if t := w.R.GetTable(id); t != nil {
			s.rosters += fmt.Sprintf("%s:%d;", id, t.PlayerCount)
		}
	}
	return s
}

// Check compares the regulator's books with the world after a call.
func (w *World) Check(ctx string) {
	q := regulator.VerifWaitingQueue(w.R)
	seen := map[string]bool{}
	for _, p := range q {
		if seen[p] {
			w.fail("C09", "queue-duplicate/"+ctx, "after %s player %s is in the waiting queue twice", ctx, p)
		}
		seen[p] = true
		if !w.Queue[p] {
			sig := "queue-holds-seated-player/" + ctx
			if !w.Reg[p] {
				sig = "queue-holds-unknown-player/" + ctx
			}
			w.fail("C09", sig, "after %s the waiting queue holds %s who is in %v", ctx, p, w.where(p))
		}
	}
	for _, p := range sortedKeys(w.Queue) {
		if !seen[p] {
			w.fail("C09", "player-dropped/"+ctx, "after %s player %s is neither in the waiting queue nor at a table", ctx, p)
		}
	}
	live := 0
	places := make(map[string]int, len(w.Reg))
	for p := range w.Queue {
		places[p]++
	}
	for _, ps := range w.Tables {
		for _, p := range ps {
			places[p]++
		}
	}
	for _, p := range sortedKeys(w.Reg) {
		if w.Elim[p] {
			continue
		}
		live++
		if places[p] != 1 {
			w.fail("C09", "not-in-exactly-one-place/"+ctx, "after %s player %s is in %v", ctx, p, w.where(p))
		}
	}
	if got := w.R.GetPlayerCount(); got != live {
		w.fail("C09", "player-count/"+ctx, "after %s GetPlayerCount()=%d, %d players are registered and not eliminated", ctx, got, live)
	}
	if got := w.R.GetTableCount(); got != len(w.Tables) {
		w.fail("C09", "table-count/"+ctx, "after %s GetTableCount()=%d, %d tables exist", ctx, got, len(w.Tables))
	}
	for _, id := range w.TableIDs() {
		ps := w.Tables[id]
		t := w.R.GetTable(id)
		if t == nil {
			w.fail("C09", "table-missing/"+ctx, "after %s table %s is unknown to the regulator", ctx, id)
			continue
		}
		if t.PlayerCount != len(ps) {
			w.fail("C09", "table-player-count/"+ctx, "after %s table %s: regulator counts %d players, %d sit there", ctx, id, t.PlayerCount, len(ps))
		}
		// the outstanding demand the regulator keeps for a table (Required: players it
		// will hand to that table as soon as it has some) is an instruction in waiting:
		// together with the players already there it may not exceed the capacity
		if t.Required > 0 && t.PlayerCount+t.Required > w.Max {
			w.fail("C19", "demand-over-capacity/"+ctx, "after %s table %s holds %d players and the regulator wants %d more for it, capacity is %d", ctx, id, t.PlayerCount, t.Required, w.Max)
		}
		if t.Required > 0 {
			w.Facts["outstanding-demand"] = true
		}
		if len(ps) > w.Max {
			w.fail("C19", "table-over-capacity/"+ctx, "after %s table %s holds %d players, capacity is %d", ctx, id, len(ps), w.Max)
		}
	}
	for id := range w.Dead {
		if w.R.GetTable(id) != nil {
			w.fail("C09", "broken-table-still-known", "table %s was broken but GetTable still returns it", id)
		}
	}
}

func sortedKeys(m map[string]bool) []string {
	out := make([]string, 0, len(m))
	for k := range m {
		out = append(out, k)
	}
	sort.Strings(out)
	return out
}

func (w *World) guard(name string, f func()) {
	defer func() {
		if e := recover(); e != nil {
			w.Log = append(w.Log, fmt.Sprintf("%s PANIC %v", name, e))
			if w.Prop == "C09" && w.V == nil {
				w.V = vlib.V("C09", "panic/"+name, "max=%d min=%d: %s panicked: %v\n   history: %s", w.Max, w.Min, name, e, strings.Join(w.Log, " | "))
			}
			w.Facts["aborted"] = true
		}
	}()
	f()
}

// lend hands a list of names to the regulator the way a caller with a reused
// buffer does: the list is a window of a longer array, and once the call has
// returned the caller overwrites the whole array. A regulator that has copied
// what it needs never notices.
func (w *World) lend(ps []string) (arg []string, reuse func()) {
	if w.NoLend {
		return ps, func() {}
	}
	buf := make([]string, len(ps)+3)
	copy(buf, ps)
	for i := len(ps); i < len(buf); i++ {
		buf[i] = fmt.Sprintf("stale-%d", i)
	}
	return buf[:len(ps)], func() {
		for i := range buf {
			buf[i] = fmt.Sprintf("reused-buffer-%d", i)
		}
	}
}

func (w *World) Add(n int) {
	ps := []string{}
	for i := 0; i < n; i++ {
		w.nextP++
		ps = append(ps, fmt.Sprintf("%sp%d", w.namePrefix, w.nextP))
	}
	w.Log = append(w.Log, fmt.Sprintf("add(%d)", n))
	closed := w.Status == 2
	before := w.snap()
	if !closed {
		for _, p := range ps {
			w.Reg[p] = true
			w.Queue[p] = true
		}
	}
	w.initialAlloc = len(w.Tables) == 0 && len(w.Dead) == 0
	w.tablesOpenedInCall = 0
	var err error
	arg, reuse := w.lend(ps)
	w.guard("AddPlayers", func() { err = w.R.AddPlayers(arg) })
	reuse()
	w.initialAlloc = false
	if w.tablesOpenedInCall >= 2 {
		w.Facts["two-tables-opened"] = true
	}
	if closed {
		w.Facts["add-after-deadline"] = true
		if err == nil {
			w.fail("C09", "registration-after-deadline-accepted", "AddPlayers(%d) after the registration deadline returned no error", n)
		} else if after := w.snap(); after != before {
			w.fail("C09", "refused-registration-changed-state", "refused AddPlayers(%d) changed the regulator: %+v -> %+v", n, before, after)
		}
	} else if err != nil {
		w.fail("C09", "registration-refused", "AddPlayers(%d) in status %d failed: %v", n, w.Status, err)
	}
	w.Check("add")
}

// ReEnter registers again players who have been eliminated (a re-entry): they
// are players of the tournament once more.
func (w *World) ReEnter(n int) {
	var ps []string
	for _, p := range sortedKeys(w.Elim) {
		if len(ps) < n && w.Elim[p] {
			ps = append(ps, p)
		}
	}
	if len(ps) == 0 {
		return
	}
	w.Log = append(w.Log, fmt.Sprintf("re-enter(%d)", len(ps)))
	closed := w.Status == 2
	before := w.snap()
	if !closed {
		for _, p := range ps {
			delete(w.Elim, p)
			w.Queue[p] = true
		}
	}
	w.initialAlloc = len(w.Tables) == 0 && len(w.Dead) == 0
	var err error
	arg, reuse := w.lend(ps)
	w.guard("AddPlayers", func() { err = w.R.AddPlayers(arg) })
	reuse()
	w.initialAlloc = false
	w.Facts["re-entry"] = true
	if closed {
		if err == nil {
			w.fail("C09", "registration-after-deadline-accepted", "AddPlayers(re-entry of %d) after the registration deadline returned no error", len(ps))
		} else if after := w.snap(); after != before {
			w.fail("C09", "refused-registration-changed-state", "refused re-entry changed the regulator: %+v -> %+v", before, after)
		}
	} else if err != nil {
		w.fail("C09", "registration-refused", "AddPlayers(re-entry of %d) in status %d failed: %v", len(ps), w.Status, err)
	}
	w.Check("re-enter")
}

// ReleaseNothing: a table reports that it releases nobody (an empty list). It is
// legal at any time and may at most make the regulator seat players who wait.
func (w *World) ReleaseNothing(id string) {
	w.Log = append(w.Log, fmt.Sprintf("release(%s,0)", id))
	w.initialAlloc = len(w.Tables) == 0 && len(w.Dead) == 0
	var err error
	w.guard("ReleasePlayers", func() { err = w.R.ReleasePlayers(id, []string{}) })
	w.initialAlloc = false
	_ = err
	w.Facts["empty-release"] = true
	w.Check("release-nothing")
}

func (w *World) SetStatus(s int) {
	w.Log = append(w.Log, fmt.Sprintf("status(%d)", s))
	w.initialAlloc = len(w.Tables) == 0 && len(w.Dead) == 0
	w.tablesOpenedInCall = 0
	w.Status = s
	w.guard("SetStatus", func() { w.R.SetStatus(regulator.CompetitionStatus(s)) })
	w.initialAlloc = false
	if w.tablesOpenedInCall >= 2 {
		w.Facts["two-tables-opened"] = true
	}
	w.Check("status")
}

func (w *World) SyncUnknown(out int) {
	id := fmt.Sprintf("nosuch%d", w.nextT+7)
	before := w.snap()
	w.Log = append(w.Log, fmt.Sprintf("sync(%s,%d)", id, out))
	var err error
	var rel int
	var newp []string
	w.guard("SyncState", func() { rel, newp, err = w.R.SyncState(id, out) })
	w.Facts["unknown-table-call"] = true
	if err == nil {
		w.fail("C09", "unknown-table-accepted", "SyncState(%q,%d) returned no error (release %d, new %v)", id, out, rel, newp)
	}
	if after := w.snap(); after != before {
		w.fail("C09", "unknown-table-call-changed-state", "refused SyncState(%q,%d) changed the regulator: %+v -> %+v", id, out, before, after)
	}
	if w.R.GetTable(id) != nil {
		w.fail("C09", "unknown-table-accepted", "GetTable(%q) is not nil", id)
	}
	w.Check("sync-unknown")
}

// Sync reports `out` eliminations at a table, then carries out what the
// regulator asks for. rot picks who is eliminated / released. Returns whether
// anything moved.
func (w *World) Sync(id string, out, rot int) bool {
	ps := w.Tables[id]
	if out > len(ps) {
		out = len(ps)
	}
	if len(ps) > 0 {
		k := rot % len(ps)
		ps = append(append([]string{}, ps[k:]...), ps[:k]...)
	}
	for i := 0; i < out; i++ {
		w.Elim[ps[i]] = true
	}
	ps = ps[out:]
	w.Tables[id] = ps
	var rel int
	var newp []string
	var err error
	w.guard("SyncState", func() { rel, newp, err = w.R.SyncState(id, out) })
	w.Log = append(w.Log, fmt.Sprintf("sync(%s,%d)=release %d,new %d", id, out, rel, len(newp)))
	if w.Facts["aborted"] {
		return false
	}
	if err != nil {
		w.fail("C09", "sync-of-live-table-refused", "SyncState(%s,%d) failed: %v", id, out, err)
		return false
	}
	w.takeFromQueue(newp, "sync-result")
	ps = append(ps, newp...)
	w.Tables[id] = ps
	if len(ps) > w.Max {
		w.fail("C19", "sync-over-capacity", "table %s holds %d players after SyncState handed it %d, capacity is %d", id, len(ps), len(newp), w.Max)
	}
	broken := w.R.GetTable(id) == nil
	asked := rel
	if rel > len(ps) {
		w.fail("C09", "release-more-than-seated", "SyncState(%s) asks to release %d players, %d sit there", id, rel, len(ps))
		rel = len(ps)
	}
	if rel < 0 {
		w.fail("C09", "negative-release", "SyncState(%s) asks to release %d players", id, rel)
		rel = 0
	}
	if broken {
		w.Facts["table-broken"] = true
		if asked != len(ps) {
			w.fail("C20", "break-hands-back-part", "table %s is told to break and to release %d players, it has %d", id, asked, len(ps))
		}
		if len(newp) > 0 {
			w.fail("C20", "break-receives-players", "table %s is told to break and receives %d players", id, len(newp))
		}
	}
	if rel > 0 || broken {
		released := append([]string{}, ps[:rel]...)
		rest := ps[rel:]
		if broken {
			// the table is gone: whatever number was asked for, everybody goes back
			released, rest = append([]string{}, ps...), nil
			delete(w.Tables, id)
			w.Dead[id] = true
		} else {
			w.Tables[id] = rest
		}
		for _, p := range released {
			w.Queue[p] = true
		}
		w.Log = append(w.Log, fmt.Sprintf("release(%s,%d)", id, len(released)))
		var rerr error
		arg, reuse := w.lend(released)
		w.guard("ReleasePlayers", func() { rerr = w.R.ReleasePlayers(id, arg) })
		reuse()
		if rerr != nil {
			w.fail("C09", "release-refused", "ReleasePlayers(%s,%d) failed: %v", id, len(released), rerr)
		}
		if broken {
			// each of them must now really be queued (the regulator's own queue, read
			// through the hook) or already sit at another live table
			realQ := map[string]bool{}
			for _, p := range regulator.VerifWaitingQueue(w.R) {
				realQ[p] = true
			}
			for _, p := range released {
				seated := false
				for _, t := range w.TableIDs() {
					for _, q := range w.Tables[t] {
						if q == p {
							seated = true
						}
					}
				}
				if !realQ[p] && !seated {
					w.fail("C20", "broken-table-player-lost", "table %s broke and handed %s back, but the regulator neither queues him nor has seated him elsewhere", id, p)
				}
				if pl := w.where(p); len(pl) != 1 {
					w.fail("C20", "broken-table-player-lost", "after table %s broke, its player %s is in %v", id, p, pl)
				}
			}
		}
		w.Facts["released"] = w.Facts["released"] || rel > 0
	}
	if len(newp) > 0 {
		w.Facts["received"] = true
	}
	w.Check("sync")
	return rel > 0 || len(newp) > 0 || broken
}

// IdleHands: n hands without a bust-out; after each, every table that is still
// there reports (SyncState(t, 0)) and carries out what it is told.
func (w *World) IdleHands(n, rot int) {
	w.Facts["idle-hands"] = true
	for h := 0; h < n && w.V == nil && !w.Facts["aborted"]; h++ {
		for _, id := range w.TableIDs() {
			if _, ok := w.Tables[id]; !ok {
				continue
			}
			w.Sync(id, 0, rot)
			if w.V != nil || w.Facts["aborted"] {
				return
			}
		}
	}
}

// Settle: sweeps of SyncState(t, 0) over all tables until a sweep is quiet.
// order returns the order of a sweep.
func (w *World) Settle(order func(ids []string, sweep int) []string) {
	if w.Status == 0 {
		return
	}
	bound := 2*len(w.Tables) + 10
	if bound < 20 {
		bound = 20
	}
	sweeps := 0
	moves := 0
	idle, maxIdle := 0, 0
	for ; ; sweeps++ {
		moved := false
		before := w.sizes()
		for _, id := range order(w.TableIDs(), sweeps) {
			if _, ok := w.Tables[id]; !ok {
				continue
			}
			if w.Sync(id, 0, 0) {
				moved = true
				moves++
			}
			if w.V != nil || w.Facts["aborted"] {
				return
			}
		}
		if !moved {
			break
		}
		// a sweep that moved players and left every table (and the queue) exactly as
		// full as it found them has brought the tournament no nearer to rest
		if w.sizes() == before {
			idle++
			if idle > maxIdle {
				maxIdle = idle
			}
			// (measured on the unchanged tree over 4 M histories: one such sweep 463 times,
			// two in a row twice, never three; five leaves a wide margin)
			if idle >= 5 {
				w.fail("C20", "moves-without-progress", "%d sweeps in a row moved players and left every table and the queue exactly as full as before (%s)", idle, before)
				return
			}
		} else {
			idle = 0
		}
		if sweeps >= bound {
			w.fail("C20", "does-not-settle", "%d sweeps over %d tables and the regulator still asks for moves", sweeps+1, len(w.Tables))
			return
		}
	}
	if sweeps > w.MaxSweeps {
		w.MaxSweeps = sweeps
	}
	w.Facts["settled"] = true
	if moves > 0 {
		w.Facts["settled-with-moves"] = true
	}
	w.St.Class(fmt.Sprintf("sweeps-to-settle:%d", sweeps))
	if maxIdle > 0 {
		w.St.Class(fmt.Sprintf("sweeps-without-progress-in-a-row:%d", maxIdle))
	}
}

// sizes: how full every table and the waiting queue are (by table name).
func (w *World) sizes() string {
	var b strings.Builder
	for _, id := range w.TableIDs() {
		fmt.Fprintf(&b, "%s:%d ", id, len(w.Tables[id]))
	}
	fmt.Fprintf(&b, "queue:%d", len(w.Queue))
	return b.String()
}
