package hand

import (
	"fmt"
	"sort"

	pf "github.com/weedbox/pokerface"

	"verif/vlib"
)

// stack0 is the stack a player started the betting round with, derived from
// chips that cannot be disputed (bankroll minus what is already in the pot)
// rather than read from the engine's initial_stack_size field.
func stack0(p *pf.PlayerState) int64 { return p.Bankroll - p.Pot }

// miniBet is the minimum bet of the table: the larger of big blind and dealer blind.
func miniBet(c *Cfg) int64 { return maxI64(c.BB, c.DB) }

// minRaiseBook keeps "the size of the previous bet or raise of the round (the
// big blind before any)": a bet sets it, a raise or all-in that lifts the wager
// to match by at least that much replaces it, anything smaller (a short all-in, a
// call) leaves it alone.
type minRaiseBook struct {
	minR  int64
	known bool
}

func (b *minRaiseBook) observe(h *Hand, t *Trans) {
	post := t.Post
	if t.Op.K == "ready" && t.Err == nil && post.Status.CurrentEvent == "RoundStarted" {
		b.known = true
		b.minR = 0
		if post.Status.Round == "preflop" {
			b.minR = h.Cfg.BB
		}
		return
	}
	if t.Op.K != "act" || t.Err != nil || !b.known {
		return
	}
	cw := t.Pre.Status.CurrentWager
	inc := post.Status.CurrentWager - cw
	if inc <= 0 {
		return
	}
	switch {
	case t.Op.A == "bet":
		b.minR = inc
	case t.Op.A == "raise" && t.Op.X == cw:
		// Raise(level == wager to match) is carried out as a call; a call that
		// is completed to one big blind lifts the wager but is no raise
	case t.Op.A == "raise" || t.Op.A == "allin":
		if inc >= b.minR {
			b.minR = inc
		}
	}
}

// amtClass names the class of the amount argument of a bet/raise request.
func amtClass(op Op, pre *pf.GameState) string {
	if op.A != "bet" && op.A != "raise" {
		return ""
	}
	p := pre.Players[pre.Status.CurrentPlayer]
	if op.Seat >= 0 && op.Seat < len(pre.Players) {
		p = pre.Players[op.Seat]
	}
	x := op.X
	cw, prs := pre.Status.CurrentWager, pre.Status.PreviousRaiseSize
	switch {
	case x <= -huge || x >= huge:
		return "huge"
	case x < 0:
		return "negative"
	case x == 0:
		return "zero"
	}
	if op.A == "bet" {
		switch {
		case x > p.StackSize:
			return "above-stack"
		case x == p.StackSize:
			return "at-stack"
		case x < pre.Status.MiniBet:
			return "below-minimum"
		case x == pre.Status.MiniBet:
			return "minimum"
		}
		return "above-minimum"
	}
	switch {
	case x < cw:
		return "below-wager"
	case x == cw:
		return "at-wager"
	case x > stack0(p):
		return "above-stack"
	case x == stack0(p):
		return "at-stack"
	case x-cw < prs:
		return "undersized"
	case x-cw == prs:
		return "minimum"
	}
	return "above-minimum"
}

func opSig(op Op, pre *pf.GameState) string {
	if op.K == "act" || op.K == "probe" {
		if c := amtClass(op, pre); c != "" {
			return op.A + "(" + c + ")"
		}
		return op.A
	}
	return op.K
}

// ---------------------------------------------------------------------------
// C01 — chips are conserved at every point of a hand
// ---------------------------------------------------------------------------

type chipsMon struct{}

func (m *chipsMon) Begin(h *Hand, gs *pf.GameState) *vlib.Violation {
	return checkChips(gs, "start", "after Start()")
}

func (m *chipsMon) Observe(h *Hand, t *Trans) *vlib.Violation {
	for i, p := range t.Post.Players {
		if i < len(h.Cfg.Bank) && p.Bankroll != h.Cfg.Bank[i] {
			return vlib.V("C01", "bankroll-changed/"+opSig(t.Op, t.Pre), "after %s seat %d shows a bankroll of %d, the hand started with %d", t.Op, i, p.Bankroll, h.Cfg.Bank[i])
		}
	}
	return checkChips(t.Post, opSig(t.Op, t.Pre), fmt.Sprintf("after %s (err=%v)", t.Op, t.Err))
}

func checkChips(gs *pf.GameState, sig, when string) *vlib.Violation {
	var sw, sp, spots int64
	for _, p := range gs.Players {
		if p.Bankroll != p.StackSize+p.Wager+p.Pot {
			return vlib.V("C01", "identity/"+sig, "%s: seat %d bankroll %d != stack %d + wager %d + pot %d", when, p.Idx, p.Bankroll, p.StackSize, p.Wager, p.Pot)
		}
		if p.StackSize < 0 || p.Wager < 0 || p.Pot < 0 {
			return vlib.V("C01", "negative/"+sig, "%s: seat %d stack %d wager %d pot %d", when, p.Idx, p.StackSize, p.Wager, p.Pot)
		}
		sw += p.Wager
		sp += p.Pot
	}
	ev := gs.Status.CurrentEvent
	if gs.Status.CurrentRoundPot != sw {
		return vlib.V("C01", "round-pot/"+sig, "%s (%s): round pot %d, wagers on the table %d", when, ev, gs.Status.CurrentRoundPot, sw)
	}
	for _, p := range gs.Status.Pots {
		spots += p.Total
	}
	// Pots are (re)published when a round closes, after the antes and at the
	// settlement; in between they keep the chips already moved to the pot.
	okPots := spots == sp+sw
	if ev != "RoundClosed" && ev != "GameClosed" {
		okPots = okPots || spots == sp
	}
	if !okPots {
		return vlib.V("C01", "pots-sum/"+sig, "%s (%s): pots add up to %d, players put in %d (+%d on the table)", when, ev, spots, sp, sw)
	}
	if ev == "GameClosed" {
		if gs.Result == nil {
			return nil // C06's business
		}
		var sum int64
		seen := map[int]bool{}
		for _, pr := range gs.Result.Players {
			if pr.Idx < 0 || pr.Idx >= len(gs.Players) || seen[pr.Idx] {
				return vlib.V("C01", "result-players", "%s: result lists seat %d (twice or unknown)", when, pr.Idx)
			}
			seen[pr.Idx] = true
			ps := gs.Players[pr.Idx]
			sum += pr.Changed
			if pr.Final != ps.Bankroll+pr.Changed {
				return vlib.V("C01", "final", "%s: seat %d final %d != bankroll %d + change %d", when, pr.Idx, pr.Final, ps.Bankroll, pr.Changed)
			}
			if pr.Final < 0 {
				return vlib.V("C01", "final-negative", "%s: seat %d final stack %d", when, pr.Idx, pr.Final)
			}
			if pr.Changed < -(ps.Pot + ps.Wager) {
				return vlib.V("C01", "loses-more-than-put-in", "%s: seat %d put in %d and changes by %d", when, pr.Idx, ps.Pot+ps.Wager, pr.Changed)
			}
		}
		if len(seen) != len(gs.Players) {
			return vlib.V("C01", "result-players", "%s: result has %d players, table %d", when, len(seen), len(gs.Players))
		}
		if sum != 0 {
			return vlib.V("C01", "zero-sum", "%s: changes add up to %d", when, sum)
		}
	}
	return nil
}

func (m *chipsMon) End(h *Hand, gs *pf.GameState) *vlib.Violation {
	levels := map[int64]bool{}
	allin := false
	for _, p := range gs.Players {
		if p.Pot > 0 {
			levels[p.Pot] = true
		}
		if p.StackSize == 0 {
			allin = true
		}
	}
	h.Facts["levels>=2"] = len(levels) >= 2
	h.Facts["levels>=3"] = len(levels) >= 3
	h.Facts["all-in"] = allin
	return nil
}

// ---------------------------------------------------------------------------
// C12 — raise sizes obey the minimum-raise rule; amounts cannot corrupt chips
// ---------------------------------------------------------------------------

// raiseMon keeps its own book of "the size of the previous bet or raise of the
// round (the big blind before any)": a bet sets it, a raise or all-in that lifts
// the wager to match by at least that much replaces it, anything smaller (a short
// all-in, a call) leaves it alone. The engine's own previous_raise_size field is
// compared with the book, not trusted.
type raiseMon struct {
	book minRaiseBook
}

func (m *raiseMon) Begin(h *Hand, gs *pf.GameState) *vlib.Violation { return nil }
func (m *raiseMon) End(h *Hand, gs *pf.GameState) *vlib.Violation   { return nil }

func (m *raiseMon) Observe(h *Hand, t *Trans) *vlib.Violation {
	pre, post := t.Pre, t.Post
	sig := opSig(t.Op, pre)
	// after every request, accepted or not
	for _, p := range post.Players {
		if p.StackSize < 0 || p.Wager < 0 || p.Pot < 0 {
			return vlib.V("C12", "negative/"+sig, "after %s (err=%v): seat %d stack %d wager %d pot %d", t.Op, t.Err, p.Idx, p.StackSize, p.Wager, p.Pot)
		}
		if p.StackSize > p.Bankroll {
			return vlib.V("C12", "stack-above-bankroll/"+sig, "after %s (err=%v): seat %d stack %d, bankroll %d", t.Op, t.Err, p.Idx, p.StackSize, p.Bankroll)
		}
	}
	for i, p := range post.Status.Pots {
		if p.Total < 0 {
			return vlib.V("C12", "negative-pot/"+sig, "after %s: pot %d total %d", t.Op, i, p.Total)
		}
	}
	if post.Status.CurrentRoundPot < 0 {
		return vlib.V("C12", "negative-pot/"+sig, "after %s: round pot %d", t.Op, post.Status.CurrentRoundPot)
	}
	book := m.book.minR
	known := m.book.known
	defer m.book.observe(h, t)
	if t.Op.K != "act" {
		return nil
	}
	cw := pre.Status.CurrentWager
	// the wager to match never goes down within a round
	if post.Status.CurrentWager < cw {
		return vlib.V("C12", "wager-decreased/"+sig, "%s: wager to match went from %d to %d", t.Op, cw, post.Status.CurrentWager)
	}
	cp := pre.Status.CurrentPlayer
	bp, ap := pre.Players[cp], post.Players[cp]
	inc := post.Status.CurrentWager - cw
	if t.Op.A != "raise" && t.Op.A != "bet" {
		return nil
	}
	x := t.Op.X
	cls := amtClass(t.Op, pre)
	h.St.Class("request:" + t.Op.A + "(" + cls + ")")
	offered := hasStr(bp.AllowedActions, "raise")
	if t.Op.A == "raise" && known && !offered {
		// A raise the engine did not offer. The statement speaks of requests: one to
		// a level below the stack that lifts the wager by at least the minimum (and
		// comes from a stack of at least the minimum bet, the condition C11 puts on
		// offering a raise at all) has to be carried out all the same.
		if pre.Meta.Limit == "no" && cw > 0 && !bp.Fold && bp.StackSize > 0 && x > cw && x < stack0(bp) && x-cw >= book && stack0(bp) >= miniBet(h.Cfg) {
			if t.Err != nil {
				return vlib.V("C12", "legal-raise-refused/"+cls+"/not-offered", "%s [%s] err=%v | minimum raise by the book %d | wager=%d stack0=%d cw=%d | offered %v", t.Op, cls, t.Err, book, bp.Wager, stack0(bp), cw, bp.AllowedActions)
			}
		}
		h.St.Class("unoffered-raise-requests")
	}
	if t.Op.A == "raise" && offered && known {
		d := func() string {
			return fmt.Sprintf("%s [%s] err=%v | minimum raise by the book %d | before: wager=%d stack0=%d cw=%d prs=%d | after: wager=%d stack=%d cw=%d prs=%d raiser=%d event=%s", t.Op, cls, t.Err, book, bp.Wager, stack0(bp), cw, pre.Status.PreviousRaiseSize, ap.Wager, ap.StackSize, post.Status.CurrentWager, post.Status.PreviousRaiseSize, post.Status.CurrentRaiser, post.Status.CurrentEvent)
		}
		if book != pre.Status.PreviousRaiseSize {
			h.St.Class("book-differs-from-engine-field")
		}
		if x < cw || x == 0 {
			if t.Err == nil || !t.Unchanged() {
				return vlib.V("C12", "below-wager-not-refused/"+cls, "%s", d())
			}
			return nil
		}
		if pre.Meta.Limit == "no" && x > cw && x < stack0(bp) && x-cw >= book {
			if t.Err != nil {
				return vlib.V("C12", "legal-raise-refused/"+cls, "%s", d())
			}
			if post.Status.CurrentWager != x || ap.Wager != x || post.Status.CurrentRaiser != cp || post.Status.PreviousRaiseSize != x-cw {
				return vlib.V("C12", "raise-not-exact/"+cls, "%s", d())
			}
			h.Facts["exact-raise"] = true
		}
		if x > cw && t.Err == nil {
			if inc > 0 && inc < book && ap.StackSize != 0 {
				return vlib.V("C12", "undersized-raise/"+cls, "%s", d())
			}
		}
		if t.Err != nil && !t.Unchanged() {
			return vlib.V("C12", "refused-but-changed/"+cls, "%s", d())
		}
	}
	return nil
}

// ---------------------------------------------------------------------------
// C11 — offered actions fit the situation and do what they say
// ---------------------------------------------------------------------------

type offerMon struct {
	book minRaiseBook
}

func (m *offerMon) Begin(h *Hand, gs *pf.GameState) *vlib.Violation { return nil }
func (m *offerMon) End(h *Hand, gs *pf.GameState) *vlib.Violation   { return nil }

// expected offer, from the statement
func expectOffer(gs *pf.GameState, p *pf.PlayerState, minBet, minRaise int64) (must, mustNot []string) {
	if p.Fold || p.StackSize == 0 {
		return []string{"pass"}, []string{"allin", "fold", "check", "call", "bet", "raise", "pay"}
	}
	must = append(must, "allin")
	mustNot = append(mustNot, "pass", "pay")
	cw := gs.Status.CurrentWager
	facing := p.Wager < cw
	if facing {
		must = append(must, "fold")
		mustNot = append(mustNot, "check")
	} else {
		must = append(must, "check")
		mustNot = append(mustNot, "fold", "call")
	}
	s0 := stack0(p)
	if facing && s0 > cw {
		must = append(must, "call")
	}
	if cw == 0 && s0 >= minBet {
		must = append(must, "bet")
	}
	if cw != 0 {
		mustNot = append(mustNot, "bet")
	}
	if cw != 0 && s0 > cw+minRaise && s0 >= minBet {
		must = append(must, "raise")
	}
	if cw == 0 {
		mustNot = append(mustNot, "raise")
	}
	return
}

func checkOffer(gs *pf.GameState, minBet, minRaise int64) *vlib.Violation {
	if gs.Status.CurrentEvent != "RoundStarted" {
		return nil
	}
	cp := gs.Status.CurrentPlayer
	if cp < 0 || cp >= len(gs.Players) {
		return vlib.V("C11", "no-current-player", "current player %d", cp)
	}
	p := gs.Players[cp]
	d := fmt.Sprintf("seat %d offered %v; fold=%v stack=%d stack0=%d wager=%d cw=%d minimum raise=%d minimum bet=%d round=%s", p.Idx, p.AllowedActions, p.Fold, p.StackSize, stack0(p), p.Wager, gs.Status.CurrentWager, minRaise, minBet, gs.Status.Round)
	must, mustNot := expectOffer(gs, p, minBet, minRaise)
	for _, a := range must {
		if !hasStr(p.AllowedActions, a) {
			return vlib.V("C11", "offer-missing/"+a, "%s", d)
		}
	}
	for _, a := range mustNot {
		if hasStr(p.AllowedActions, a) {
			return vlib.V("C11", "offer-extra/"+a, "%s", d)
		}
	}
	aa := append([]string{}, p.AllowedActions...)
	sort.Strings(aa)
	for i := 1; i < len(aa); i++ {
		if aa[i] == aa[i-1] {
			return vlib.V("C11", "offer-duplicate/"+aa[i], "%s", d)
		}
	}
	return nil
}

func (m *offerMon) Observe(h *Hand, t *Trans) *vlib.Violation {
	m.book.observe(h, t)
	if m.book.known {
		if v := checkOffer(t.Post, miniBet(h.Cfg), m.book.minR); v != nil {
			return v
		}
	}
	// a fold is for good, and only the folder's flag changes
	for i, q := range t.Post.Players {
		o := t.Pre.Players[i]
		if o.Fold && !q.Fold {
			return vlib.V("C11", "fold-undone", "after %s seat %d is no longer folded", t.Op, i)
		}
		if !o.Fold && q.Fold && !(t.Op.K == "act" && t.Op.A == "fold" && t.Err == nil && i == t.Pre.Status.CurrentPlayer) {
			return vlib.V("C11", "folded-without-folding", "after %s seat %d is marked folded", t.Op, i)
		}
	}
	if t.Op.K == "act" && t.Op.A == "fold" && t.Err == nil && !t.Post.Players[t.Pre.Status.CurrentPlayer].Fold {
		return vlib.V("C11", "fold-without-effect", "after %s the seat is not marked folded", t.Op)
	}
	if t.Op.K != "act" {
		return nil
	}
	pre, post := t.Pre, t.Post
	cp := pre.Status.CurrentPlayer
	bp, ap := pre.Players[cp], post.Players[cp]
	bs, as := pre.Status, post.Status
	act, x := t.Op.A, t.Op.X
	d := func() string {
		return fmt.Sprintf("%s err=%v | before: wager=%d stack=%d stack0=%d cw=%d prs=%d | after: wager=%d stack=%d cw=%d prs=%d event=%s", t.Op, t.Err, bp.Wager, bp.StackSize, stack0(bp), bs.CurrentWager, bs.PreviousRaiseSize, ap.Wager, ap.StackSize, as.CurrentWager, as.PreviousRaiseSize, as.CurrentEvent)
	}
	// evidence: boundary situations
	s0 := stack0(bp)
	near := func(a, b int64) bool { return a-b <= 1 && b-a <= 1 }
	if near(s0, bs.CurrentWager) || near(s0, bs.CurrentWager+m.book.minR) || near(s0, miniBet(h.Cfg)) {
		h.Facts["boundary-stack"] = true
	}
	// nobody else's chips move in any action
	for i, q := range post.Players {
		if i == cp {
			continue
		}
		o := pre.Players[i]
		moved := q.StackSize != o.StackSize || q.Bankroll != o.Bankroll || q.Wager+q.Pot != o.Wager+o.Pot
		if moved {
			return vlib.V("C11", "other-seat-chips-moved/"+act, "seat %d: %s", i, d())
		}
	}
	if t.Err != nil {
		return nil
	}
	paid := bp.StackSize - ap.StackSize
	switch act {
	case "check", "fold", "pass":
		if paid != 0 || ap.Wager+ap.Pot != bp.Wager+bp.Pot || as.CurrentWager != bs.CurrentWager {
			return vlib.V("C11", "chips-moved/"+act, "%s", d())
		}
	case "call":
		// Read at the moment the call lands: if the round closed the wager was
		// swept into the pot only on Next(), so Wager is still visible here.
		if ap.Wager != as.CurrentWager {
			return vlib.V("C11", "call-not-level", "%s", d())
		}
		if ap.Wager < bs.CurrentWager {
			return vlib.V("C11", "call-under", "%s", d())
		}
		if ap.Wager > maxI64(bs.CurrentWager, pre.Meta.Blind.BB) {
			return vlib.V("C11", "call-over", "%s", d())
		}
		if bs.CurrentWager >= pre.Meta.Blind.BB && (ap.Wager != bs.CurrentWager || as.CurrentWager != bs.CurrentWager) {
			return vlib.V("C11", "call-not-exact", "%s", d())
		}
	case "allin":
		if ap.StackSize != 0 || paid != bp.StackSize {
			return vlib.V("C11", "allin-not-whole-stack", "%s", d())
		}
	case "bet":
		if x > 0 && x < bp.StackSize {
			if as.CurrentWager != x || ap.Wager != x {
				return vlib.V("C11", "bet-not-exact", "%s", d())
			}
		}
	}
	return nil
}
