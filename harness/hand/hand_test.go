package hand

import (
	"encoding/json"
	"fmt"
	"os"
	"testing"

	pf "github.com/weedbox/pokerface"
	"pgregory.net/rapid"

	"verif/vlib"
)

// profileFor: generator emphasis and the single monitor of the active property.
func profileFor(prop string) (Profile, []Monitor) {
	switch prop {
	case "C01":
		return Profile{Hostile: true, Probes: 2, NoBBGames: true}, []Monitor{&chipsMon{}}
	case "C02":
		return Profile{ThemedDecks: true, Showdown: true, SmallStacks: true}, []Monitor{&settleMon{}}
	case "C04":
		return Profile{Probes: 6, Hostile: true}, []Monitor{&orderMon{}}
	case "C05":
		return Profile{SmallStacks: true, Hostile: true, Probes: 2}, []Monitor{&closeMon{}}
	case "C06":
		return Profile{Hostile: true, Probes: 3, NoBBGames: true}, []Monitor{&progressMon{}}
	case "C07":
		return Profile{Cuts: true, Hostile: true, Probes: 1, NoBBGames: true}, []Monitor{&resumeMon{}}
	case "C10":
		return Profile{ThemedDecks: true, Showdown: true}, []Monitor{&bestMon{}}
	case "C11":
		return Profile{SmallStacks: true, Probes: 1}, []Monitor{&offerMon{}}
	case "C12":
		return Profile{Hostile: true, SmallStacks: true, Probes: 1, TryRaises: true}, []Monitor{&raiseMon{}}
	case "C13":
		return Profile{SmallStacks: true, NoBBGames: true}, []Monitor{&forcedMon{}}
	case "C14":
		return Profile{Probes: 1, NoBBGames: true}, []Monitor{&dealMon{}}
	case "C15":
		every := 3
		if vlib.Thorough() {
			every = 1
		}
		return Profile{NoBBGames: true}, []Monitor{&viewMon{every: every}}
	case "C16":
		return Profile{SmallStacks: true, Probes: 1}, []Monitor{&potsMon{}}
	}
	return Profile{}, nil
}

func probesOnlyAtClose(prop string) bool { return false }

// closeOnlyProbes wraps a chooser so that probes are only drawn once the hand is
// closed (C06: "from then on accepts nothing"; wrong-phase probes during the
// hand belong to C04).
type closeOnlyProbes struct{ Chooser }

func (c closeOnlyProbes) Probes(h *Hand, gs *pf.GameState) []Op {
	if gs.Status.CurrentEvent != "GameClosed" {
		return nil
	}
	return c.Chooser.Probes(h, gs)
}

// nonTrivial applies the property's stated rule to a finished hand.
func nonTrivial(prop string, h *Hand) bool {
	f := h.Facts
	switch prop {
	case "C01":
		return f["levels>=2"] || f["hostile-request"] || f["capped-forced-bet"]
	case "C02":
		return f["pots>=2"] || f["tie"] || f["folded-partial-contributor"]
	case "C04":
		return f["probed"]
	case "C05":
		return f["eventful-round"]
	case "C06":
		return f["streets>=2"] || f["fold-out"] || f["all-in-runout"]
	case "C07":
		return f["compared>=10"] && f["settled-after-json-hop"]
	case "C10":
		return f["real-choice"]
	case "C11":
		return f["boundary-stack"]
	case "C12":
		return f["sized-request"]
	case "C13":
		return forcedNonTrivial(h.Cfg)
	case "C14":
		return f["reached-flop"]
	case "C15":
		return f["burned-cards"] || f["closed-with-folded-and-shown"]
	case "C16":
		return (f["pots>=2"] && f["folded-partial-contributor"]) || f["zero-contribution"]
	}
	return false
}

func genericFacts(h *Hand) {
	for i, op := range h.Ops {
		_ = i
		if op.K != "act" {
			continue
		}
		if op.A == "bet" || op.A == "raise" {
			h.Facts["sized-request"] = true
			if op.X <= 0 || op.X >= huge || op.Res != "" {
				h.Facts["hostile-request"] = true
			}
		}
		if op.A == "allin" {
			h.Facts["all-in"] = true
		}
		if op.A == "fold" {
			h.Facts["fold"] = true
		}
	}
	if forcedNonTrivial(h.Cfg) {
		h.Facts["capped-forced-bet"] = true
	}
	if h.G != nil {
		gs := h.G.GetState()
		if gs.Status.CurrentEvent == "GameClosed" && aliveCount(gs) >= 2 {
			h.Facts["showdown"] = true
		}
		if aliveCount(gs) == 1 {
			h.Facts["fold-out"] = true
		}
		h.Facts["board:"+fmt.Sprint(len(gs.Status.Board))] = true
	}
	h.Facts["policy:"+h.policy] = true
	h.Facts["limit:"+h.Cfg.Limit] = true
	h.Facts[fmt.Sprintf("seats:%d", bucketN(h.Cfg.N))] = true
	if h.Cfg.ShortDeck {
		h.Facts["short-deck"] = true
	}
	if h.Cfg.Req > 0 {
		h.Facts["omaha"] = true
	}
	if h.Cfg.DeadSB {
		h.Facts["dead-sb"] = true
	}
	if h.Cfg.NoSBSeat {
		h.Facts["no-sb-seat"] = true
	}
	if h.Cfg.NoBBSeat {
		h.Facts["no-bb-seat"] = true
	}
	h.Facts[fmt.Sprintf("variant:%d/%d", h.Cfg.Hole, h.Cfg.Req)] = true
	if h.Cfg.DB > 0 {
		h.Facts["dealer-blind"] = true
	}
	if h.Cfg.Ante > 0 {
		h.Facts["ante"] = true
	}
	h.Facts["deck:"+h.Cfg.Theme] = true
}

func bucketN(n int) int {
	switch {
	case n <= 3:
		return n
	case n <= 6:
		return 6
	}
	return 10
}

func sampleOf(c *Case) interface{} {
	ops := make([]string, 0, len(c.Ops))
	for _, o := range c.Ops {
		s := o.String()
		if o.Res != "" {
			s += "!"
		}
		ops = append(ops, s)
	}
	cfg := *c.Cfg
	cfg.Deck = cfg.Deck[:minInt(len(cfg.Deck), cfg.N*cfg.Hole+8)]
	return map[string]interface{}{"cfg": cfg, "ops": ops}
}

// TestHand: configurations x decks x play histories through the real engine.
func TestHand(t *testing.T) {
	prop := vlib.Prop()
	pr, _ := profileFor(prop)
	st := vlib.NewStats("hands")
	vlib.RunRapid(t, "hand", "hand", st, func(rt *rapid.T) vlib.Outcome {
		_, mons := profileFor(prop)
		pr := pr
		if prop == "C07" && rapid.Bool().Draw(rt, "tightStacks") {
			// resuming matters most where the betting state is intricate: short all-ins
			// on top of each other, minimum raises, stacks next to the forced amounts
			pr.SmallStacks = true
		}
		cfg := GenCfg(rt, pr)
		h := &Hand{Prop: prop, Cfg: cfg, St: st, Mons: mons}
		h.OnHang = func(v *vlib.Violation) {
			// the stuck goroutine cannot be stopped: report (unshrunk) and end the process
			b, _ := json.Marshal(&Case{Prop: prop, Cfg: cfg, Ops: h.Ops, Note: "an engine operation never returned; not shrunk"})
			path := vlib.WriteReplay(&vlib.Replay{Property: prop, Harness: "hand", Kind: "hand", Case: b, Violation: v})
			st.Violations++
			st.Write(os.Getenv("VERIF_OUT"))
			fmt.Printf("HARNESS-VIOLATION property=%s signature=%q replay=%s\n   %s\n", prop, v.Signature, path, v.Detail)
			os.Exit(1)
		}
		rc := NewRapidChooser(rt, pr)
		h.policy = rc.Policy
		var ch Chooser = rc
		if probesOnlyAtClose(prop) {
			ch = closeOnlyProbes{rc}
		}
		v := h.Run(ch)
		c := &Case{Prop: prop, Cfg: cfg, Ops: h.Ops}
		st.Evaluations++
		if h.Aborted {
			st.Aborted++
			return vlib.Outcome{Case: c}
		}
		genericFacts(h)
		for k, on := range h.Facts {
			if on {
				st.Class(k)
			}
		}
		st.Count("operations", int64(len(h.Ops)))
		for _, o := range h.Ops {
			if o.K == "act" && o.Res == "" {
				st.Count("accepted_actions", 1)
				st.Count("accepted:"+o.A, 1)
			}
		}
		if nonTrivial(prop, h) {
			st.NonTrivial(vlib.Hash(c.Cfg, c.Ops))
			st.Sample(sampleOf(c))
		}
		return vlib.Outcome{Case: c, Violation: v}
	})
}

// replayHand runs a recorded case through the same monitors without rapid.
func replayHand(c *Case, prop string) (*Hand, *vlib.Violation) {
	_, mons := profileFor(prop)
	h := &Hand{Prop: prop, Cfg: c.Cfg, St: vlib.NewStats("replay"), Mons: mons}
	h.OnHang = func(v *vlib.Violation) {
		fmt.Printf("REPLAY-VIOLATION property=%s signature=%q\n   %s\n", v.Property, v.Signature, v.Detail)
		os.Exit(1)
	}
	var ch Chooser = &ReplayChooser{Ops: c.Ops}
	v := h.Run(ch)
	return h, v
}

func TestReplay(t *testing.T) {
	path := os.Getenv("VERIF_REPLAY")
	if path == "" {
		t.Skip("no VERIF_REPLAY")
	}
	r, err := vlib.ReadReplay(path)
	if err != nil {
		t.Fatalf("replay file: %v", err)
	}
	var v *vlib.Violation
	switch r.Kind {
	case "hand":
		var c Case
		if err := json.Unmarshal(r.Case, &c); err != nil {
			t.Fatalf("case: %v", err)
		}
		var h *Hand
		h, v = replayHand(&c, r.Property)
		if h.Diverged {
			fmt.Println("REPLAY-NOTE the recorded choices no longer fit the engine's states; the hand was finished passively")
		}
		if h.Aborted {
			fmt.Println("REPLAY-NOTE the case was aborted by a panic that belongs to another property")
		}
	case "forced":
		var c Cfg
		json.Unmarshal(r.Case, &c)
		v = runForced(&c)
	case "start":
		var c startCase
		json.Unmarshal(r.Case, &c)
		v = checkStart(&c)
	case "two":
		var c twoCase
		json.Unmarshal(r.Case, &c)
		for i := 0; i < 5 && v == nil; i++ { // the shuffle at Start() is time-seeded
			v = replayTwo(&c, r.Property)
		}
	case "shuffle":
		var c shuffleCase
		json.Unmarshal(r.Case, &c)
		v = checkShuffle(&c)
	default:
		t.Fatalf("unknown replay kind %q", r.Kind)
	}
	vlib.ReportReplay(t, r, v)
}
