package hand

import (
	"encoding/json"
	"fmt"
	"regexp"
	"time"

	pf "github.com/weedbox/pokerface"
	"github.com/weedbox/pokerface/pot"

	"verif/vlib"
)

// Op is one operation performed on the engine.
type Op struct {
	K    string `json:"k"`             // ready | ante | blinds | next | act | probe | cut
	Seat int    `json:"seat"`          // act: the seat to act (informational); probe: seat addressed, -1 = table / current player
	A    string `json:"a,omitempty"`   // action name (act) or operation name (probe)
	X    int64  `json:"x,omitempty"`   // amount argument
	Res  string `json:"res,omitempty"` // observed result, informational
}

func (o Op) String() string {
	switch o.K {
	case "act":
		if o.A == "bet" || o.A == "raise" {
			return fmt.Sprintf("%d:%s(%d)", o.Seat, o.A, o.X)
		}
		return fmt.Sprintf("%d:%s", o.Seat, o.A)
	case "probe":
		return fmt.Sprintf("probe[%d.%s(%d)]", o.Seat, o.A, o.X)
	case "query":
		return fmt.Sprintf("query[%s %d]", o.A, o.Seat)
	}
	return o.K
}

// Case is the decoded, replayable form of one generated hand.
type Case struct {
	Prop string `json:"prop"`
	Cfg  *Cfg   `json:"cfg"`
	Ops  []Op   `json:"ops"`
	Note string `json:"note,omitempty"`
}

// Chooser supplies the choices of a history: the generator draws them, the
// replayer reads them back.
type Chooser interface {
	Decide(h *Hand, gs *pf.GameState) Op
	Probes(h *Hand, gs *pf.GameState) []Op
	Cut(h *Hand) string // "" no rebuild; "new": new game object from the JSON state; "load": LoadState(JSON state) on the live object
}

// Trans is what monitors see: one operation with the states around it.
type Trans struct {
	Pre, Post *pf.GameState // deep copies
	Op        Op
	Err       error
	Probe     bool
	preJSON   string
	postJSON  string
}

func (t *Trans) PreJSON() string {
	if t.preJSON == "" {
		t.preJSON = Norm(t.Pre)
	}
	return t.preJSON
}

func (t *Trans) PostJSON() string {
	if t.postJSON == "" {
		t.postJSON = Norm(t.Post)
	}
	return t.postJSON
}

func (t *Trans) Unchanged() bool { return t.PreJSON() == t.PostJSON() }

// Monitor is a per-property oracle watching a hand.
type Monitor interface {
	Begin(h *Hand, gs *pf.GameState) *vlib.Violation
	Observe(h *Hand, t *Trans) *vlib.Violation
	End(h *Hand, gs *pf.GameState) *vlib.Violation
}

type Hand struct {
	Prop     string
	Cfg      *Cfg
	G        pf.Game
	Ops      []Op
	St       *vlib.Stats
	Mons     []Monitor
	Accepted int                         // accepted main-line steps
	Aborted  bool                        // a panic that belongs to another property ended the case
	CutNow   bool                        // the chooser asked for a JSON rebuild before the next op (C07)
	Diverged bool                        // replay: recorded choices no longer fit the engine's state
	StopAt   func(gs *pf.GameState) bool // optional: stop driving when this holds (prefix-only checks)
	lastErr  error                       // result of the last operation
	OnHang   func(v *vlib.Violation)     // C06: called when an engine operation never returns
	cur      *pf.GameState               // copy of the state after the last operation
	snap     *pf.GameState               // JSON snapshot taken at the last persistence hop
	snapAt   int                         // len(Ops) when it was taken
	policy   string
	// facts about the hand collected for evidence
	Facts map[string]bool
}

var reTS = regexp.MustCompile(`"updated_at":-?\d+`)

// Norm is the JSON of a state with the timestamp blanked.
func Norm(gs *pf.GameState) string {
	b, _ := json.Marshal(gs)
	return reTS.ReplaceAllString(string(b), `"updated_at":0`)
}

// JSONClone is exactly what the table backend does with a state.
func JSONClone(gs *pf.GameState) *pf.GameState {
	b, _ := json.Marshal(gs)
	var s pf.GameState
	json.Unmarshal(b, &s)
	return &s
}

// Clone is a deep copy without the JSON detour (keeps unexported data shared:
// only the settlement result and pot levels, which the monitors never mutate).
func Clone(gs *pf.GameState) *pf.GameState {
	c := *gs
	c.Meta.Deck = cloneStrs(gs.Meta.Deck)
	c.Meta.CombinationPowers = append(gs.Meta.CombinationPowers[:0:0], gs.Meta.CombinationPowers...)
	c.Status.Burned = cloneStrs(gs.Status.Burned)
	c.Status.Board = cloneStrs(gs.Status.Board)
	if gs.Status.LastAction != nil {
		la := *gs.Status.LastAction
		c.Status.LastAction = &la
	}
	if gs.Status.Pots != nil {
		c.Status.Pots = make([]*pot.Pot, len(gs.Status.Pots))
		for i, p := range gs.Status.Pots {
			q := *p
			q.Contributors = make(map[int]int64, len(p.Contributors))
			for k, v := range p.Contributors {
				q.Contributors[k] = v
			}
			c.Status.Pots[i] = &q
		}
	}
	c.Players = make([]*pf.PlayerState, len(gs.Players))
	for i, p := range gs.Players {
		q := *p
		q.Positions = cloneStrs(p.Positions)
		q.AllowedActions = cloneStrs(p.AllowedActions)
		q.HoleCards = cloneStrs(p.HoleCards)
		if p.Combination != nil {
			cb := *p.Combination
			cb.Cards = cloneStrs(p.Combination.Cards)
			q.Combination = &cb
		}
		c.Players[i] = &q
	}
	return &c
}

// cloneStrs keeps the nil / empty distinction (it is visible in the JSON).
func cloneStrs(xs []string) []string {
	if xs == nil {
		return nil
	}
	out := make([]string, len(xs))
	copy(out, xs)
	return out
}

// Apply performs op on an in-memory game.
func Apply(g pf.Game, op Op) error {
	switch op.K {
	case "ready":
		return g.ReadyForAll()
	case "ante":
		return g.PayAnte()
	case "blinds":
		return g.PayBlinds()
	case "next":
		return g.Next()
	case "act":
		return gameAction(g, op.A, op.X)
	case "query":
		applyQuery(g, op)
		return nil
	case "probe":
		if op.Seat < 0 {
			switch op.A {
			case "ready":
				return g.ReadyForAll()
			case "ante":
				return g.PayAnte()
			case "blinds":
				return g.PayBlinds()
			case "next":
				return g.Next()
			case "resume":
				return g.Resume()
			}
			return gameAction(g, op.A, op.X)
		}
		pl := g.Player(op.Seat)
		switch op.A {
		case "pass":
			return pl.Pass()
		case "pay":
			return pl.Pay(op.X)
		case "fold":
			return pl.Fold()
		case "check":
			return pl.Check()
		case "call":
			return pl.Call()
		case "allin":
			return pl.Allin()
		case "bet":
			return pl.Bet(op.X)
		case "raise":
			return pl.Raise(op.X)
		}
	}
	return fmt.Errorf("harness: unknown op %+v", op)
}

// Querier is an optional part of a Chooser: read-only calls on the live game
// object between two operations (what a table service does to render a screen).
type Querier interface {
	Queries(h *Hand, gs *pf.GameState) []Op
}

var queryKinds = []string{"available", "allowed", "players", "json", "counts", "positions", "current", "seat"}

// applyQuery calls getters of the public API; none of them is an operation of
// the hand, so none of them may change anything.
func applyQuery(g pf.Game, op Op) {
	defer func() { recover() }()
	var pl pf.Player
	if op.Seat >= 0 && op.Seat < g.GetPlayerCount() {
		pl = g.Player(op.Seat)
	}
	switch op.A {
	case "available":
		if pl != nil {
			g.GetAvailableActions(pl)
		}
	case "allowed":
		if pl != nil {
			g.GetAllowedActions(pl)
		}
	case "players":
		for _, p := range g.GetPlayers() {
			p.SeatIndex()
		}
	case "json":
		g.GetStateJSON()
	case "counts":
		g.GetAlivePlayerCount()
		g.GetMovablePlayerCount()
		g.GetPlayerCount()
		g.GetEvent()
	case "positions":
		for _, p := range []pf.Player{g.Dealer(), g.SmallBlind(), g.BigBlind()} {
			if p != nil {
				p.State()
			}
		}
	case "current":
		if p := g.GetCurrentPlayer(); p != nil {
			p.State()
		}
	case "seat":
		if pl != nil {
			pl.State()
			pl.SeatIndex()
			for _, a := range allActions {
				pl.CheckAction(a)
			}
			for _, pos := range []string{"dealer", "sb", "bb"} {
				pl.CheckPosition(pos)
			}
		}
	}
}

func gameAction(g pf.Game, a string, x int64) error {
	switch a {
	case "pass":
		return g.Pass()
	case "pay":
		return g.Pay(x)
	case "fold":
		return g.Fold()
	case "check":
		return g.Check()
	case "call":
		return g.Call()
	case "allin":
		return g.Allin()
	case "bet":
		return g.Bet(x)
	case "raise":
		return g.Raise(x)
	}
	return fmt.Errorf("harness: unknown action %q", a)
}

// watchedApply is used by C06 only: an engine operation that does not return is
// the strongest way of not finishing. Operations take microseconds; one that has
// not returned after 30 seconds (the machine may be busy) never will. The
// goroutine cannot be stopped, so the caller reports and ends the process.
func watchedApply(g pf.Game, op Op) (err error, pan interface{}, hung bool) {
	type res struct {
		err error
		pan interface{}
	}
	ch := make(chan res, 1)
	go func() {
		e, p := safeApply(g, op)
		ch <- res{e, p}
	}()
	select {
	case r := <-ch:
		return r.err, r.pan, false
	case <-time.After(30 * time.Second):
		return nil, nil, true
	}
}

func safeApply(g pf.Game, op Op) (err error, pan interface{}) {
	defer func() {
		if e := recover(); e != nil {
			pan = e
		}
	}()
	return Apply(g, op), nil
}

const hardStepLimit = 4000

// do executes one operation and shows it to the monitors.
func (h *Hand) do(op Op, probe bool, pre *pf.GameState) (*pf.GameState, *vlib.Violation) {
	var err error
	var pan interface{}
	if h.Prop == "C06" {
		var hung bool
		err, pan, hung = watchedApply(h.G, op)
		if hung {
			op.Res = "NEVER RETURNED"
			h.Ops = append(h.Ops, op)
			v := vlib.V("C06", "operation-never-returns/"+op.K+":"+op.A, "%s had not returned after 30 s (%s)", op, h.Cfg.Short())
			if h.OnHang != nil {
				h.OnHang(v) // writes the replay file and ends the process
			}
			return nil, v
		}
	} else {
		err, pan = safeApply(h.G, op)
	}
	if pan != nil {
		op.Res = fmt.Sprintf("PANIC: %v", pan)
		h.Ops = append(h.Ops, op)
		// completion of an engine operation is C06's business
		if h.Prop == "C06" {
			return nil, vlib.V("C06", "panic/"+op.K+":"+op.A, "%s panicked: %v", op, pan)
		}
		h.Aborted = true
		return nil, nil
	}
	if err != nil {
		op.Res = "err: " + err.Error()
	}
	h.lastErr = err
	h.Ops = append(h.Ops, op)
	post := Clone(h.G.GetState())
	t := &Trans{Pre: pre, Post: post, Op: op, Err: err, Probe: probe}
	if !probe && err == nil {
		h.Accepted++
	}
	for _, m := range h.Mons {
		if v := m.Observe(h, t); v != nil {
			return post, v
		}
	}
	return post, nil
}

// Run plays one hand. It returns the violation of the active property, if any.
func (h *Hand) Run(ch Chooser) *vlib.Violation {
	if v := h.Begin(); v != nil || h.Aborted {
		return v
	}
	for {
		done, v := h.StepOnce(ch)
		if v != nil || h.Aborted || done {
			return v
		}
	}
}

// Begin starts the game and puts the generated deck in place.
func (h *Hand) Begin() *vlib.Violation {
	h.Facts = map[string]bool{}
	var g pf.Game
	var startErr error
	var pan interface{}
	func() {
		defer func() {
			if e := recover(); e != nil {
				pan = e
			}
		}()
		if pre := h.Cfg.Prelude; pre != nil {
			// the same game object has played (part of) another hand before and is
			// given new options: nothing of the earlier hand may show through
			g = pf.NewPokerFace().NewGame(pre.Options())
			playPassively(g, pre, h.Cfg.PreludeSteps)
			g.ApplyOptions(h.Cfg.Options())
			h.Facts["reused-game-object"] = true
		} else {
			g = pf.NewPokerFace().NewGame(h.Cfg.Options())
		}
		startErr = g.Start()
	}()
	h.G = g
	if pan != nil || startErr != nil {
		if h.Prop == "C06" {
			return vlib.V("C06", "start-refused", "Start() of an acceptable configuration (%s) failed: err=%v panic=%v", h.Cfg.Short(), startErr, pan)
		}
		h.Aborted = true
		return nil
	}
	// The deck is shuffled with a time seed at Start(); no card has been dealt
	// yet, so the generated order is put in place (C14 checks separately that the
	// shuffled deck is a permutation of the configured one).
	if v := checkShuffled(h, g.GetState().Meta.Deck); v != nil {
		return v
	}
	if h.Cfg.ConstructorDeck {
		// the deck comes straight from the engine's constructor, as table/ does it;
		// the shuffled order is taken as it is
		h.Cfg.Deck = cloneStrs(g.GetState().Meta.Deck)
	} else {
		copy(g.GetState().Meta.Deck, h.Cfg.Deck)
	}
	h.cur = Clone(g.GetState())
	h.snap, h.snapAt = JSONClone(g.GetState()), 0
	for _, m := range h.Mons {
		if v := m.Begin(h, h.cur); v != nil {
			return v
		}
	}
	return nil
}

// rebuild replaces the game by one restored from its serialized state.
func (h *Hand) rebuild(how string) (v *vlib.Violation) {
	defer func() {
		if e := recover(); e != nil {
			if h.Prop == "C06" {
				v = vlib.V("C06", "panic/restore:"+how, "restoring the hand from its JSON state panicked: %v", e)
				return
			}
			h.Aborted = true
		}
	}()
	st := JSONClone(h.G.GetState())
	switch how {
	case "load":
		h.G.LoadState(st)
	case "rollback":
		// the live object is taken back to an earlier snapshot of this hand and the
		// operations made since are made again (a service that retries after a
		// failure): same deck, same operations, so the same state must come out
		if h.snap != nil {
			h.G.LoadState(JSONClone(h.snap))
			for _, op := range h.Ops[h.snapAt:] {
				if op.K == "cut" {
					continue
				}
				op.Res = ""
				Apply(h.G, op)
			}
			h.Facts["rolled-back"] = true
		}
	default:
		h.G = pf.NewPokerFace().NewGameFromState(st)
	}
	h.snap, h.snapAt = JSONClone(st), len(h.Ops) // a copy: st may have become the live state
	h.Facts["restored-from-json"] = true
	return nil
}

// playPassively drives an earlier hand on a game object: the expected table steps,
// and at decision points the first of check / call / pass / fold that is offered
// (every third decision an all-in, so that folded and all-in seats are left behind).
func playPassively(g pf.Game, c *Cfg, steps int) {
	if g.Start() != nil {
		return
	}
	copy(g.GetState().Meta.Deck, c.Deck)
	for i := 0; i < steps && g.GetEvent() != "GameClosed"; i++ {
		gs := g.GetState()
		switch gs.Status.CurrentEvent {
		case "ReadyRequested":
			g.ReadyForAll()
		case "AnteRequested":
			g.PayAnte()
		case "BlindsRequested":
			g.PayBlinds()
		case "RoundClosed":
			g.Next()
		case "RoundStarted":
			aa := gs.Players[gs.Status.CurrentPlayer].AllowedActions
			var err error
			switch {
			case hasStr(aa, "pass"):
				err = g.Pass()
			case i%3 == 2 && hasStr(aa, "allin"):
				err = g.Allin()
			case i%5 == 4 && hasStr(aa, "fold"):
				err = g.Fold()
			case hasStr(aa, "check"):
				err = g.Check()
			case hasStr(aa, "call"):
				err = g.Call()
			case hasStr(aa, "fold"):
				err = g.Fold()
			default:
				err = g.Allin()
			}
			if err != nil {
				return
			}
		default:
			return
		}
	}
}

// StepOnce performs the probes and the one step of the current wait point.
func (h *Hand) StepOnce(ch Chooser) (bool, *vlib.Violation) {
	gs := h.G.GetState()
	ev := gs.Status.CurrentEvent
	for _, p := range ch.Probes(h, gs) {
		post, v := h.do(p, true, h.cur)
		if v != nil || h.Aborted {
			return true, v
		}
		h.cur = post
		// C06 explores the whole reachable graph: an off-protocol operation the
		// engine accepts is an edge of it; take it again to see whether it can
		// be taken for ever
		if h.Prop == "C06" && h.lastErr == nil && h.G.GetState().Status.CurrentEvent != "GameClosed" {
			for rep := 0; rep < 2 && h.lastErr == nil; rep++ {
				post, v = h.do(p, true, h.cur)
				if v != nil || h.Aborted {
					return true, v
				}
				h.cur = post
			}
		}
	}
	if ev == "GameClosed" {
		for _, m := range h.Mons {
			if v := m.End(h, h.cur); v != nil {
				return true, v
			}
		}
		return true, nil
	}
	if h.StopAt != nil && h.StopAt(gs) {
		return true, nil
	}
	if q, ok := ch.(Querier); ok {
		if qs := q.Queries(h, gs); len(qs) > 0 {
			before := ""
			if h.Prop == "C07" {
				before = Norm(h.G.GetState())
			}
			for _, op := range qs {
				applyQuery(h.G, op)
				h.Ops = append(h.Ops, op)
			}
			h.Facts["queried"] = true
			if h.Prop == "C07" {
				if after := Norm(h.G.GetState()); after != before {
					return true, vlib.V("C07", "query-changed-state/"+qs[0].A, "read-only calls %v at %s changed the state of the in-memory game (a game rebuilt from the JSON never sees them):\n before=%s\n after =%s", qs, gs.Status.CurrentEvent, before, after)
				}
			}
			h.cur = Clone(h.G.GetState())
		}
	}
	if how := ch.Cut(h); how != "" {
		h.CutNow = true
		h.Ops = append(h.Ops, Op{K: "cut", Seat: -1, A: how})
		if h.Prop != "C07" {
			// every property must survive the persistence hop the table backend makes
			// between any two operations (C07 compares replicas instead, see resumeMon)
			if v := h.rebuild(how); v != nil || h.Aborted {
				return true, v
			}
		}
	}
	var op Op
	switch ev {
	case "ReadyRequested":
		op = Op{K: "ready", Seat: -1}
	case "AnteRequested":
		op = Op{K: "ante", Seat: -1}
	case "BlindsRequested":
		op = Op{K: "blinds", Seat: -1}
	case "RoundClosed":
		op = Op{K: "next", Seat: -1}
	case "RoundStarted":
		op = ch.Decide(h, gs)
	default:
		if h.Prop == "C06" {
			return true, vlib.V("C06", "unexpected-wait-event/"+ev, "the hand waits in event %q, which names no step a driver can take", ev)
		}
		h.Aborted = true
		return true, nil
	}
	post, v := h.do(op, false, h.cur)
	if v != nil || h.Aborted {
		return true, v
	}
	h.cur = post
	if len(h.Ops) > hardStepLimit {
		if h.Prop == "C06" {
			return true, vlib.V("C06", "no-termination", "hand not closed after %d operations", len(h.Ops))
		}
		h.Aborted = true
		return true, nil
	}
	return false, nil
}

func checkShuffled(h *Hand, deck []string) *vlib.Violation {
	if h.Prop != "C14" {
		return nil
	}
	want := h.Cfg.Deck
	if h.Cfg.ConstructorDeck {
		want = engineDeck(h.Cfg.ShortDeck)
	}
	if !samePermutation(deck, want) {
		return vlib.V("C14", "shuffle/start", "the deck after Start() is not a permutation of the configured deck: %v", deck)
	}
	return nil
}

func samePermutation(a, b []string) bool {
	if len(a) != len(b) {
		return false
	}
	m := map[string]int{}
	for _, x := range a {
		m[x]++
	}
	for _, x := range b {
		m[x]--
	}
	for _, n := range m {
		if n != 0 {
			return false
		}
	}
	return true
}

// helpers over states -------------------------------------------------------

func hasStr(xs []string, s string) bool {
	for _, x := range xs {
		if x == s {
			return true
		}
	}
	return false
}

func aliveCount(gs *pf.GameState) int {
	n := 0
	for _, p := range gs.Players {
		if !p.Fold {
			n++
		}
	}
	return n
}

func movableCount(gs *pf.GameState) int {
	n := 0
	for _, p := range gs.Players {
		if !p.Fold && p.StackSize > 0 {
			n++
		}
	}
	return n
}

func seatWith(gs *pf.GameState, pos string) int {
	for _, p := range gs.Players {
		if hasStr(p.Positions, pos) {
			return p.Idx
		}
	}
	return -1
}

func minI64(a, b int64) int64 {
	if a < b {
		return a
	}
	return b
}

func maxI64(a, b int64) int64 {
	if a > b {
		return a
	}
	return b
}
