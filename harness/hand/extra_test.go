package hand

import (
	"encoding/json"
	"fmt"
	"os"
	"runtime"
	"sync"
	"testing"

	pf "github.com/weedbox/pokerface"
	"pgregory.net/rapid"

	"verif/vlib"
)

// ---------------------------------------------------------------------------
// C13 — forced bets: prefix-only drive (Start, Ready, PayAnte, PayBlinds)
// ---------------------------------------------------------------------------

// tableChooser never has to decide: the drive stops before the first action.
type tableChooser struct{}

func (tableChooser) Decide(h *Hand, gs *pf.GameState) Op {
	return Op{K: "act", Seat: gs.Status.CurrentPlayer, A: "pass"}
}
func (tableChooser) Probes(h *Hand, gs *pf.GameState) []Op { return nil }
func (tableChooser) Cut(h *Hand) string                    { return "" }

func runForced(c *Cfg) *vlib.Violation {
	mon := &forcedMon{}
	h := &Hand{Prop: "C13", Cfg: c, St: vlib.NewStats("forced"), Mons: []Monitor{mon}}
	h.StopAt = func(gs *pf.GameState) bool {
		return gs.Status.Round == "preflop" && gs.Status.CurrentEvent != "BlindsRequested"
	}
	v := h.Run(tableChooser{})
	if v == nil && !h.Aborted && !mon.done {
		return vlib.V("C13", "preflop-not-reached", "%s: the hand did not reach the start of the preflop round (event %s)", c.Short(), h.G.GetState().Status.CurrentEvent)
	}
	return v
}

func TestForcedRapid(t *testing.T) {
	st := vlib.NewStats("forced-rapid")
	pr, _ := profileFor("C13")
	vlib.RunRapid(t, "hand", "forced", st, func(rt *rapid.T) vlib.Outcome {
		c := GenCfg(rt, pr)
		if !c.NoBBSeat && rapid.IntRange(0, 19).Draw(rt, "noBigBlind") == 0 {
			// the seats keep their positions, but no big blind is configured: the small
			// blind and / or the dealer blind are the only forced bets (prefix drive only)
			c.BB = 0
		}
		st.Evaluations++
		v := runForced(c)
		st.ClassIf(c.BB == 0 && !c.NoBBSeat, "bb=0-with-bb-seat")
		st.ClassIf(c.BB == 0 && !c.NoBBSeat && c.SB > 0 && c.DB == 0, "small-blind-only")
		if forcedNonTrivial(c) {
			cc := *c
			cc.Deck = nil
			st.NonTrivial(vlib.Hash(cc))
			st.Sample(cc)
		}
		st.ClassIf(c.DeadSB, "dead-sb")
		st.ClassIf(c.NoSBSeat, "no-sb-seat")
		st.ClassIf(c.DB > 0, "dealer-blind")
		st.ClassIf(c.Ante > 0, "ante")
		st.ClassIf(c.SB == 0, "sb=0")
		st.ClassIf(c.N == 2, "heads-up")
		return vlib.Outcome{Case: c, Violation: v}
	})
}

// TestForcedGrid: every configuration with n<=4, ante<=2, SB<=2, BB 1..3, dealer
// blind in {0,2}, bankrolls 1..5, every button position, live/dead small blind;
// plus the button-blind / ante-only layouts (SB = BB = 0, dealer blind 0..3).
func TestForcedGrid(t *testing.T) {
	st := vlib.NewStats("forced-grid")
	st.Exhaustive = true
	defer func() { st.Write(os.Getenv("VERIF_OUT")) }()
	deck := baseDeck(false)
	var cfgs []*Cfg
	for n := 2; n <= 4; n++ {
		total := 1
		for i := 0; i < n; i++ {
			total *= 5
		}
		for code := 0; code < total; code++ {
			bank := make([]int64, n)
			x := code
			for i := range bank {
				bank[i] = int64(x%5) + 1
				x /= 5
			}
			// button-blind and ante-only games: only the dealer holds a position
			for _, ante := range []int64{0, 1, 2} {
				for _, db := range []int64{0, 1, 2, 3} {
					for dealer := 0; dealer < n; dealer++ {
						cfgs = append(cfgs, &Cfg{N: n, Dealer: dealer, NoBBSeat: true, Ante: ante, DB: db, Limit: "no", Hole: 2, Bank: bank, Deck: deck})
					}
				}
			}
			for _, ante := range []int64{0, 1, 2} {
				for _, sb := range []int64{0, 1, 2} {
					// bb 0: a seat holds "bb" but no big blind is configured (the small blind
					// and / or the dealer blind are the only forced bets)
					for _, bb := range []int64{0, 1, 2, 3} {
						for _, db := range []int64{0, 2} {
							for dealer := 0; dealer < n; dealer++ {
								for layout := 0; layout < 3; layout++ {
									// 0 standard, 1 the seat after the dealer holds no position, 2 no small-blind seat at all
									if layout == 1 && n == 2 {
										continue
									}
									cfgs = append(cfgs, &Cfg{N: n, Dealer: dealer, DeadSB: layout == 1, NoSBSeat: layout == 2, Ante: ante, SB: sb, BB: bb, DB: db, Limit: "no", Hole: 2, Bank: bank, Deck: deck})
								}
							}
						}
					}
				}
			}
		}
	}
	var mu sync.Mutex
	var bad *Cfg
	var badV *vlib.Violation
	badIdx := -1
	var wg sync.WaitGroup
	workers := runtime.NumCPU()
	for w := 0; w < workers; w++ {
		wg.Add(1)
		go func(w int) {
			defer wg.Done()
			nt := 0
			for i := w; i < len(cfgs); i += workers {
				if forcedNonTrivial(cfgs[i]) {
					nt++
				}
				if v := runForced(cfgs[i]); v != nil {
					mu.Lock()
					if badIdx < 0 || i < badIdx {
						badIdx, bad, badV = i, cfgs[i], v
					}
					mu.Unlock()
					break
				}
			}
			mu.Lock()
			st.Count("distinct_nontrivial_enumerated", int64(nt))
			mu.Unlock()
		}(w)
	}
	wg.Wait()
	st.Evaluations = int64(len(cfgs))
	for _, i := range []int{0, len(cfgs) / 2, len(cfgs) - 1} {
		c := *cfgs[i]
		c.Deck = nil
		st.Sample(c)
	}
	if badV != nil {
		st.Violations++
		b, _ := json.Marshal(bad)
		path := vlib.WriteReplay(&vlib.Replay{Property: "C13", Harness: "hand", Kind: "forced", Case: b, Violation: badV})
		fmt.Printf("HARNESS-VIOLATION property=C13 signature=%q replay=%s\n   %s\n", badV.Signature, path, badV.Detail)
		t.Fail()
	}
}

// ---------------------------------------------------------------------------
// C06 — a hand starts only with a valid configuration
// ---------------------------------------------------------------------------

type startCase struct {
	Cfg    *Cfg   `json:"cfg"`
	Defect string `json:"defect"` // none | one-player | no-players | no-dealer | zero-bankroll | negative-bankroll | empty-deck
	Seat   int    `json:"seat"`
}

func checkStart(c *startCase) (v *vlib.Violation) {
	o := c.Cfg.Options()
	switch c.Defect {
	case "one-player":
		o.Players = o.Players[c.Cfg.Dealer : c.Cfg.Dealer+1]
	case "no-players":
		o.Players = nil
	case "no-dealer":
		for _, p := range o.Players {
			var pos []string
			for _, s := range p.Positions {
				if s != "dealer" {
					pos = append(pos, s)
				}
			}
			p.Positions = pos
		}
	case "zero-bankroll":
		o.Players[c.Seat].Bankroll = 0
	case "negative-bankroll":
		o.Players[c.Seat].Bankroll = -5
	case "empty-deck":
		o.Deck = []string{}
	}
	defer func() {
		if e := recover(); e != nil {
			v = vlib.V("C06", "start-panics/"+c.Defect, "Start() with defect %q panicked: %v", c.Defect, e)
		}
	}()
	g := pf.NewPokerFace().NewGame(o)
	before := Norm(g.GetState())
	err := g.Start()
	if c.Defect == "none" {
		if err != nil {
			return vlib.V("C06", "start-refused", "Start() of a valid configuration (%s) failed: %v", c.Cfg.Short(), err)
		}
		if g.GetEvent() != "ReadyRequested" {
			return vlib.V("C06", "first-wait", "after Start() the hand waits in %q", g.GetEvent())
		}
		return nil
	}
	if err == nil {
		return vlib.V("C06", "invalid-start-accepted/"+c.Defect, "Start() succeeded with defect %q (%s), event %q", c.Defect, c.Cfg.Short(), g.GetEvent())
	}
	if g.GetEvent() != "" || Norm(g.GetState()) != before {
		return vlib.V("C06", "refused-start-has-effect/"+c.Defect, "Start() refused (%v) but left event %q / a changed state", err, g.GetEvent())
	}
	return nil
}

func TestStartValidation(t *testing.T) {
	st := vlib.NewStats("start-validation")
	pr, _ := profileFor("C06")
	defects := []string{"none", "one-player", "no-players", "no-dealer", "zero-bankroll", "negative-bankroll", "empty-deck"}
	vlib.RunRapid(t, "hand", "start", st, func(rt *rapid.T) vlib.Outcome {
		c := &startCase{Cfg: GenCfg(rt, pr)}
		c.Defect = rapid.SampledFrom(defects).Draw(rt, "defect")
		c.Seat = rapid.IntRange(0, c.Cfg.N-1).Draw(rt, "seat")
		st.Evaluations++
		st.Class("start:" + c.Defect)
		v := checkStart(c)
		if c.Defect != "none" {
			cc := *c.Cfg
			cc.Deck = nil
			st.NonTrivial(vlib.Hash(cc, c.Defect, c.Seat))
		}
		return vlib.Outcome{Case: c, Violation: v}
	})
}

// ---------------------------------------------------------------------------
// C14 — shuffling only reorders
// ---------------------------------------------------------------------------

type shuffleCase struct {
	Cards []string `json:"cards"`
}

func checkShuffle(c *shuffleCase) (v *vlib.Violation) {
	defer func() {
		if e := recover(); e != nil {
			v = vlib.V("C14", "shuffle/panic", "ShuffleCards(%v) panicked: %v", c.Cards, e)
		}
	}()
	in := append([]string{}, c.Cards...)
	out := pf.ShuffleCards(in)
	if !samePermutation(out, c.Cards) {
		return vlib.V("C14", "shuffle/not-a-permutation", "ShuffleCards(%v) = %v", c.Cards, out)
	}
	return nil
}

func TestShuffle(t *testing.T) {
	st := vlib.NewStats("shuffle")
	vlib.RunRapid(t, "hand", "shuffle", st, func(rt *rapid.T) vlib.Outcome {
		short := rapid.Bool().Draw(rt, "short")
		base := baseDeck(short)
		if rapid.IntRange(0, 3).Draw(rt, "bigDeck") == 0 {
			// "all deck contents": jokers and the like - a deck may hold more than 52 cards
			for i, n := 0, rapid.IntRange(1, 60).Draw(rt, "extraCards"); i < n; i++ {
				base = append(base, fmt.Sprintf("X%d", i))
			}
		}
		deck := rapid.Permutation(base).Draw(rt, "deck")
		k := rapid.IntRange(0, len(deck)).Draw(rt, "size")
		if rapid.IntRange(0, 2).Draw(rt, "full") == 0 {
			k = len(deck)
		}
		c := &shuffleCase{Cards: deck[:k]}
		st.Evaluations++
		if k >= 2 {
			st.NonTrivial(vlib.Hash(c.Cards))
		}
		return vlib.Outcome{Case: c, Violation: checkShuffle(c)}
	})
}

// ---------------------------------------------------------------------------
// C05 / C06 — every action history of every tiny game (small-scope exhaustive)
// ---------------------------------------------------------------------------

func tinyMoves(gs *pf.GameState) []Op {
	cp := gs.Status.CurrentPlayer
	p := gs.Players[cp]
	cw, prs := gs.Status.CurrentWager, gs.Status.PreviousRaiseSize
	var out []Op
	for _, a := range p.AllowedActions {
		switch a {
		case "bet":
			seen := map[int64]bool{}
			for _, x := range []int64{1, gs.Status.MiniBet, p.StackSize - 1} {
				if x >= 1 && x < p.StackSize && !seen[x] {
					seen[x] = true
					out = append(out, Op{K: "act", Seat: cp, A: "bet", X: x})
				}
			}
		case "raise":
			seen := map[int64]bool{}
			for _, x := range []int64{cw + prs, cw + prs + 1, p.InitialStackSize - 1} {
				if x > cw && x-cw >= prs && x < p.InitialStackSize && !seen[x] {
					seen[x] = true
					out = append(out, Op{K: "act", Seat: cp, A: "raise", X: x})
				}
			}
		default:
			out = append(out, Op{K: "act", Seat: cp, A: a})
		}
	}
	return out
}

type tinyRun struct {
	prop     string
	st       *vlib.Stats
	leaves   int64
	nodes    int64
	maxDepth int
	nontriv  int64
	bad      *Case
	v        *vlib.Violation
	limit    int64
}

func cloneMons(ms []Monitor) []Monitor {
	out := make([]Monitor, len(ms))
	for i, m := range ms {
		switch x := m.(type) {
		case *closeMon:
			c := *x
			c.hadTurn = map[int]bool{}
			for k, v := range x.hadTurn {
				c.hadTurn[k] = v
			}
			out[i] = &c
		case *progressMon:
			c := *x
			c.seen = make(map[uint64]bool, len(x.seen))
			for k, v := range x.seen {
				c.seen[k] = v
			}
			c.streets = append([]string(nil), x.streets...)
			out[i] = &c
		default:
			out[i] = m
		}
	}
	return out
}

func (r *tinyRun) dfs(h *Hand, cur *pf.GameState, depth int) {
	for r.v == nil {
		r.nodes++
		gs := h.G.GetState()
		ev := gs.Status.CurrentEvent
		if ev == "GameClosed" {
			for _, m := range h.Mons {
				if v := m.End(h, cur); v != nil {
					r.fail(h, v)
					return
				}
			}
			r.leaves++
			if depth > r.maxDepth {
				r.maxDepth = depth
			}
			genericFacts(h)
			if nonTrivial(r.prop, h) {
				r.nontriv++
			}
			return
		}
		if len(h.Ops) > 400 {
			r.fail(h, vlib.V("C06", "no-termination", "tiny game not closed after %d operations", len(h.Ops)))
			return
		}
		var op Op
		switch ev {
		case "ReadyRequested":
			op = Op{K: "ready", Seat: -1}
		case "AnteRequested":
			op = Op{K: "ante", Seat: -1}
		case "BlindsRequested":
			op = Op{K: "blinds", Seat: -1}
		case "RoundClosed":
			op = Op{K: "next", Seat: -1}
		case "RoundStarted":
			moves := tinyMoves(gs)
			if len(moves) == 0 {
				r.fail(h, vlib.V("C06", "nothing-offered", "seat %d is to act and is offered nothing", gs.Status.CurrentPlayer))
				return
			}
			for i, mv := range moves {
				if r.v != nil {
					return
				}
				child := h
				ccur := cur
				if i < len(moves)-1 {
					// branch: rebuild the game from its JSON, copy the monitors
					cp := *h
					cp.G = pf.NewPokerFace().NewGameFromState(JSONClone(gs))
					cp.Ops = append([]Op(nil), h.Ops...)
					cp.Mons = cloneMons(h.Mons)
					cp.Facts = map[string]bool{}
					for k, v := range h.Facts {
						cp.Facts[k] = v
					}
					child = &cp
				}
				post, v := child.do(mv, false, ccur)
				if v != nil {
					r.fail(child, v)
					return
				}
				if child.Aborted {
					return
				}
				r.dfs(child, post, depth+1)
			}
			return
		default:
			r.fail(h, vlib.V("C06", "unexpected-wait-event/"+ev, "the hand waits in event %q", ev))
			return
		}
		post, v := h.do(op, false, cur)
		if v != nil {
			r.fail(h, v)
			return
		}
		if h.Aborted {
			return
		}
		cur = post
		depth++
	}
}

func (r *tinyRun) fail(h *Hand, v *vlib.Violation) {
	if v.Property != r.prop {
		return
	}
	if r.v == nil {
		r.v = v
		r.bad = &Case{Prop: r.prop, Cfg: h.Cfg, Ops: append([]Op(nil), h.Ops...), Note: "tiny-game exhaustive stage"}
	}
}

func tinyCfg(bank []int64) *Cfg {
	return &Cfg{N: len(bank), Dealer: 0, SB: 1, BB: 2, Limit: "no", Hole: 2, Bank: bank, Deck: baseDeck(false), Theme: "fixed"}
}

func runTiny(prop string, bank []int64) *tinyRun {
	_, mons := profileFor(prop)
	cfg := tinyCfg(bank)
	h := &Hand{Prop: prop, Cfg: cfg, St: vlib.NewStats("tiny"), Mons: mons, Facts: map[string]bool{}}
	r := &tinyRun{prop: prop, st: h.St}
	g := pf.NewPokerFace().NewGame(cfg.Options())
	h.G = g
	if err := g.Start(); err != nil {
		r.fail(h, vlib.V("C06", "start-refused", "Start() failed: %v", err))
		return r
	}
	copy(g.GetState().Meta.Deck, cfg.Deck)
	cur := Clone(g.GetState())
	for _, m := range h.Mons {
		if v := m.Begin(h, cur); v != nil {
			r.fail(h, v)
			return r
		}
	}
	r.dfs(h, cur, 0)
	return r
}

func TestTinyGames(t *testing.T) {
	prop := vlib.Prop()
	st := vlib.NewStats("tiny-games")
	st.Exhaustive = true
	defer func() { st.Write(os.Getenv("VERIF_OUT")) }()
	max2, max3 := 6, 4
	if vlib.Thorough() {
		max2, max3 = 8, 6
	}
	var banks [][]int64
	for a := 1; a <= max2; a++ {
		for b := 1; b <= max2; b++ {
			banks = append(banks, []int64{int64(a), int64(b)})
		}
	}
	for a := 1; a <= max3; a++ {
		for b := 1; b <= max3; b++ {
			for c := 1; c <= max3; c++ {
				banks = append(banks, []int64{int64(a), int64(b), int64(c)})
			}
		}
	}
	results := make([]*tinyRun, len(banks))
	var wg sync.WaitGroup
	jobs := make(chan int, len(banks))
	for i := range banks {
		jobs <- i
	}
	close(jobs)
	for w := 0; w < runtime.NumCPU(); w++ {
		wg.Add(1)
		go func() {
			defer wg.Done()
			for i := range jobs {
				results[i] = runTiny(prop, banks[i])
			}
		}()
	}
	wg.Wait()
	for i, r := range results {
		st.Evaluations += r.leaves
		st.Count("tiny_games", 1)
		st.Count("tiny_nodes", r.nodes)
		st.Count("distinct_nontrivial_enumerated", r.nontriv)
		if int64(r.maxDepth) > st.Counters["tiny_max_depth"] {
			st.Counters["tiny_max_depth"] = int64(r.maxDepth)
		}
		if i%97 == 0 {
			st.Sample(map[string]interface{}{"bankrolls": banks[i], "blinds": "1/2", "complete_histories": r.leaves, "nodes": r.nodes, "max_depth": r.maxDepth})
		}
		if r.v != nil {
			st.Violations++
			b, _ := json.Marshal(r.bad)
			path := vlib.WriteReplay(&vlib.Replay{Property: prop, Harness: "hand", Kind: "hand", Case: b, Violation: r.v})
			fmt.Printf("HARNESS-VIOLATION property=%s signature=%q replay=%s\n   %s\n", prop, r.v.Signature, path, r.v.Detail)
			t.Fail()
			return
		}
	}
}

// ---------------------------------------------------------------------------
// C14 — two hands alive at the same time (tables of one tournament): decks come
// straight from the engine's constructors, as table/ builds them, operations of
// the two hands are interleaved, each hand is watched by its own card monitor.
// ---------------------------------------------------------------------------

type twoCase struct {
	A     *Case `json:"a"`
	B     *Case `json:"b"`
	Sched []int `json:"schedule"` // which hand takes the next step: 0 = A, 1 = B
}

func runTwo(prop string, c *twoCase, chA, chB Chooser, next func(i int) int, st *vlib.Stats) *vlib.Violation {
	mk := func(cs *Case) *Hand {
		cs.Cfg.ConstructorDeck = true
		_, mons := profileFor(prop)
		return &Hand{Prop: prop, Cfg: cs.Cfg, St: st, Mons: mons}
	}
	hs := [2]*Hand{mk(c.A), mk(c.B)}
	chs := [2]Chooser{chA, chB}
	begun := [2]bool{}
	done := [2]bool{}
	defer func() { c.A.Ops, c.B.Ops = hs[0].Ops, hs[1].Ops }()
	for i := 0; !(done[0] && done[1]); i++ {
		k := next(i)
		if done[k] {
			k = 1 - k
		}
		c.Sched = append(c.Sched, k)
		h := hs[k]
		if !begun[k] {
			begun[k] = true
			if v := h.Begin(); v != nil {
				return v
			}
			if h.Aborted {
				done[k] = true
			}
			continue
		}
		d, v := h.StepOnce(chs[k])
		if v != nil {
			v.Detail = fmt.Sprintf("hand %c of two interleaved hands: %s", 'A'+k, v.Detail)
			return v
		}
		if d || h.Aborted {
			done[k] = true
		}
		if i > 3*hardStepLimit {
			break
		}
	}
	return nil
}

func TestTwoTables(t *testing.T) {
	prop := vlib.Prop()
	st := vlib.NewStats("two-tables")
	vlib.RunRapid(t, "hand", "two", st, func(rt *rapid.T) vlib.Outcome {
		pr, _ := profileFor(prop)
		pr.MaxN = 6
		pr.Probes = 0
		pr.Cuts = false
		a := GenCfg(rt, pr)
		b := GenCfg(rt, pr)
		b.ShortDeck, b.ShortTable = a.ShortDeck, a.ShortTable
		for b.Hole*b.N+8 > len(baseDeck(b.ShortDeck)) {
			b.N--
			b.Bank = b.Bank[:b.N]
			if b.Dealer >= b.N {
				b.Dealer = 0
			}
		}
		c := &twoCase{A: &Case{Prop: prop, Cfg: a}, B: &Case{Prop: prop, Cfg: b}}
		chA, chB := NewRapidChooser(rt, pr), NewRapidChooser(rt, pr)
		bias := rapid.IntRange(1, 3).Draw(rt, "bias")
		v := runTwo(prop, c, chA, chB, func(i int) int {
			if rapid.IntRange(0, 3).Draw(rt, "who") < bias {
				return 0
			}
			return 1
		}, st)
		st.Evaluations++
		switches := 0
		for i := 1; i < len(c.Sched); i++ {
			if c.Sched[i] != c.Sched[i-1] {
				switches++
			}
		}
		if switches >= 4 {
			st.NonTrivial(vlib.Hash(c.A.Cfg.Bank, c.B.Cfg.Bank, c.Sched, c.A.Ops, c.B.Ops))
			st.Sample(map[string]interface{}{"hand_a": sampleOf(c.A), "hand_b": sampleOf(c.B), "schedule": c.Sched})
		}
		st.ClassIf(switches >= 4, "interleaved>=4-switches")
		return vlib.Outcome{Case: c, Violation: v}
	})
}

func replayTwo(c *twoCase, prop string) *vlib.Violation {
	sched := c.Sched
	cc := &twoCase{A: &Case{Prop: prop, Cfg: c.A.Cfg}, B: &Case{Prop: prop, Cfg: c.B.Cfg}}
	return runTwo(prop, cc, &ReplayChooser{Ops: c.A.Ops}, &ReplayChooser{Ops: c.B.Ops}, func(i int) int {
		if i < len(sched) {
			return sched[i]
		}
		return i % 2
	}, vlib.NewStats("replay"))
}
