package hand

import (
	pf "github.com/weedbox/pokerface"
	"pgregory.net/rapid"
)

const huge = int64(1) << 62

const (
	minInt64 = -1 << 63
	maxInt64 = 1<<63 - 1
)

// policies ---------------------------------------------------------------

var policyNames = []string{"uniform", "showdown", "aggressive", "foldy", "minraise", "shortallin"}

// weight of each offered action under a policy
var policyWeights = map[string]map[string]int{
	"uniform":    {"pass": 4, "fold": 2, "check": 8, "call": 8, "allin": 1, "bet": 6, "raise": 5},
	"showdown":   {"pass": 4, "fold": 1, "check": 14, "call": 14, "allin": 1, "bet": 2, "raise": 2},
	"aggressive": {"pass": 4, "fold": 1, "check": 3, "call": 6, "allin": 1, "bet": 10, "raise": 8},
	"foldy":      {"pass": 4, "fold": 10, "check": 5, "call": 2, "allin": 1, "bet": 2, "raise": 2},
	"minraise":   {"pass": 4, "fold": 0, "check": 1, "call": 3, "allin": 0, "bet": 12, "raise": 12},
	"shortallin": {"pass": 4, "fold": 1, "check": 2, "call": 5, "allin": 7, "bet": 3, "raise": 5},
}

// RapidChooser draws every choice from rapid.
type RapidChooser struct {
	RT      *rapid.T
	Pr      Profile
	Policy  string
	CutMode int // 0 never, 1 always, 2 drawn
	refused int // consecutive refused requests at the current decision point
	lastLen int
}

func NewRapidChooser(rt *rapid.T, pr Profile) *RapidChooser {
	c := &RapidChooser{RT: rt, Pr: pr}
	names := policyNames
	if pr.Showdown {
		names = []string{"showdown", "showdown", "shortallin", "uniform", "aggressive"}
	}
	c.Policy = rapid.SampledFrom(names).Draw(rt, "policy")
	if pr.Cuts {
		c.CutMode = rapid.IntRange(0, 2).Draw(rt, "cutMode")
	} else if !pr.NoCuts && rapid.IntRange(0, 3).Draw(rt, "persistenceHops") == 0 {
		// a quarter of the hands of every property are restored from JSON at
		// drawn wait points (always / at random)
		c.CutMode = rapid.IntRange(1, 2).Draw(rt, "cutMode")
	}
	return c
}

func (c *RapidChooser) Cut(h *Hand) string {
	cut := false
	switch c.CutMode {
	case 1:
		cut = true
	case 2:
		cut = rapid.IntRange(0, 3).Draw(c.RT, "cut") == 0
	}
	if !cut {
		return ""
	}
	switch rapid.IntRange(0, 5).Draw(c.RT, "cutHow") {
	case 0, 1:
		return "load"
	case 2:
		return "rollback"
	}
	return "new"
}

func (c *RapidChooser) Decide(h *Hand, gs *pf.GameState) Op {
	rt := c.RT
	cp := gs.Status.CurrentPlayer
	p := gs.Players[cp]
	aa := p.AllowedActions
	if len(aa) == 0 {
		// nothing offered: C06/C11 will say so; keep the driver going with a pass
		return Op{K: "act", Seat: cp, A: "pass"}
	}
	// count consecutive refusals at this decision point so that the driver
	// always makes progress
	c.refused = 0
	for i := len(h.Ops) - 1; i >= 0; i-- {
		o := h.Ops[i]
		if o.K == "probe" || o.K == "cut" {
			continue
		}
		if o.K == "act" && o.Seat == cp && o.Res != "" {
			c.refused++
			continue
		}
		break
	}
	w := policyWeights[c.Policy]
	var bag []string
	for _, a := range aa {
		k := w[a]
		if c.refused >= 2 && (a == "bet" || a == "raise") {
			k = 0
		}
		for i := 0; i < k; i++ {
			bag = append(bag, a)
		}
	}
	if len(bag) == 0 {
		for _, a := range aa {
			if a != "bet" && a != "raise" {
				bag = append(bag, a)
			}
		}
	}
	if len(bag) == 0 {
		bag = aa
	}
	a := bag[rapid.IntRange(0, len(bag)-1).Draw(rt, "action")]
	if c.Pr.TryRaises && c.refused == 0 && !hasStr(aa, "raise") && !hasStr(aa, "pass") && gs.Status.CurrentWager > 0 && rapid.IntRange(0, 3).Draw(rt, "tryRaise") == 0 {
		// C12 speaks of raise requests, not of offers: ask for a raise although the
		// engine did not offer one (the monitor knows whether it had to be carried out)
		a = "raise"
	}
	op := Op{K: "act", Seat: cp, A: a}
	cw, prs := gs.Status.CurrentWager, gs.Status.PreviousRaiseSize
	mb := gs.Status.MiniBet
	switch a {
	case "bet":
		if c.Policy == "minraise" && rapid.IntRange(0, 3).Draw(rt, "minOnly") != 0 {
			op.X = mb
			break
		}
		cands := []int64{mb, mb + 1, mb - 1, 1, p.StackSize / 2, p.StackSize - 1, p.StackSize, p.StackSize + 1, 2 * mb, 3}
		if rapid.IntRange(0, 9).Draw(rt, "modest") < 6 {
			cands = []int64{mb, mb + 1, 2 * mb, mb + 2, 3 * mb}
		}
		if c.Pr.Hostile && rapid.IntRange(0, 5).Draw(rt, "hostile") == 0 {
			cands = []int64{0, -1, -p.StackSize, -huge, huge, -mb, p.StackSize + 1, minInt64, minInt64 + 1, maxInt64, maxInt64 - 1, minInt64 + p.StackSize}
		}
		op.X = cands[rapid.IntRange(0, len(cands)-1).Draw(rt, "betAmount")]
		if !c.Pr.Hostile && op.X <= 0 {
			op.X = 1
		}
	case "raise":
		if c.Policy == "minraise" && rapid.IntRange(0, 3).Draw(rt, "minOnly") != 0 {
			op.X = cw + prs
			break
		}
		s0 := p.InitialStackSize
		cands := []int64{cw + prs, cw + prs + 1, cw + prs - 1, cw + 1, cw + 2*prs, (cw + s0) / 2, s0 - 1, s0, s0 + 1, cw + prs + 2, 2 * cw}
		if rapid.IntRange(0, 9).Draw(rt, "modest") < 6 {
			// 2*cw: a raise by the size of the standing wager (the previous bet when
			// it was the first of the round)
			cands = []int64{cw + prs, cw + prs + 1, cw + 2*prs, cw + prs + 2, cw + prs, 2 * cw, 2*cw + 1}
		}
		if c.Pr.Hostile && rapid.IntRange(0, 5).Draw(rt, "hostile") == 0 {
			cands = []int64{0, -1, cw - 1, cw, -huge, huge, -s0, cw / 2, cw + prs - 1, cw + 1, minInt64, minInt64 + 1, minInt64 + cw, minInt64 + cw - 1, maxInt64, maxInt64 - 1}
		}
		op.X = cands[rapid.IntRange(0, len(cands)-1).Draw(rt, "raiseAmount")]
		if !c.Pr.Hostile && op.X <= cw {
			op.X = cw + prs
		}
	}
	return op
}

var allActions = []string{"pass", "pay", "fold", "check", "call", "allin", "bet", "raise"}
var tableOps = map[string]string{"ReadyRequested": "ready", "AnteRequested": "ante", "BlindsRequested": "blinds", "RoundClosed": "next"}

// Probes draws operations that are NOT expected now: table operations of another
// phase, actions of other seats, actions the current player was not offered.
func (c *RapidChooser) Probes(h *Hand, gs *pf.GameState) []Op {
	if c.Pr.Probes == 0 {
		return nil
	}
	rt := c.RT
	ev := gs.Status.CurrentEvent
	k := rapid.IntRange(0, c.Pr.Probes).Draw(rt, "nProbes")
	if ev == "GameClosed" {
		k = c.Pr.Probes
	}
	var out []Op
	if ev == "GameClosed" && h.Prop == "C06" {
		// a closed hand accepts nothing: re-activating it from its last event
		// (what every accepted action does at its end) must not bring it back
		out = append(out, Op{K: "probe", Seat: -1, A: "resume"})
	}
	cw, prs := gs.Status.CurrentWager, gs.Status.PreviousRaiseSize
	for i := 0; i < k; i++ {
		kind := rapid.IntRange(0, 5).Draw(rt, "probeKind")
		switch {
		case kind == 0: // table operation of another phase
			var cands []string
			for _, t := range []string{"ready", "ante", "blinds", "next"} {
				if tableOps[ev] != t {
					cands = append(cands, t)
				}
			}
			out = append(out, Op{K: "probe", Seat: -1, A: cands[rapid.IntRange(0, len(cands)-1).Draw(rt, "tableOp")]})
		case kind == 1 && ev == "RoundStarted": // an action the current player was not offered
			p := gs.Players[gs.Status.CurrentPlayer]
			var cands []string
			for _, a := range allActions {
				if !hasStr(p.AllowedActions, a) {
					cands = append(cands, a)
				}
			}
			a := cands[rapid.IntRange(0, len(cands)-1).Draw(rt, "unoffered")]
			seat := -1
			if rapid.Bool().Draw(rt, "viaSeat") {
				seat = p.Idx
			}
			out = append(out, Op{K: "probe", Seat: seat, A: a, X: probeAmount(rt, gs, p, cw, prs)})
		case ev != "RoundStarted" && kind <= 2: // an action through the game object outside a round
			a := allActions[rapid.IntRange(0, len(allActions)-1).Draw(rt, "gameAction")]
			p := gs.Players[0]
			out = append(out, Op{K: "probe", Seat: -1, A: a, X: probeAmount(rt, gs, p, cw, prs)})
		default: // another seat (or, outside a betting round, any seat) acts
			seat := rapid.IntRange(0, len(gs.Players)-1).Draw(rt, "seat")
			if ev == "RoundStarted" && seat == gs.Status.CurrentPlayer {
				seat = (seat + 1) % len(gs.Players)
			}
			p := gs.Players[seat]
			a := allActions[rapid.IntRange(0, len(allActions)-1).Draw(rt, "seatAction")]
			out = append(out, Op{K: "probe", Seat: seat, A: a, X: probeAmount(rt, gs, p, cw, prs)})
		}
	}
	return out
}

// Queries: now and then a few read-only calls on the live object.
func (c *RapidChooser) Queries(h *Hand, gs *pf.GameState) []Op {
	if c.Pr.NoQueries || rapid.IntRange(0, 5).Draw(c.RT, "queries") != 0 {
		return nil
	}
	var out []Op
	n := rapid.IntRange(1, 3).Draw(c.RT, "nQueries")
	for i := 0; i < n; i++ {
		out = append(out, Op{K: "query", A: rapid.SampledFrom(queryKinds).Draw(c.RT, "query"), Seat: rapid.IntRange(0, len(gs.Players)-1).Draw(c.RT, "querySeat")})
	}
	return out
}

func (c *ReplayChooser) Queries(h *Hand, gs *pf.GameState) []Op {
	c.skipTable()
	var out []Op
	for c.pos < len(c.Ops) && c.Ops[c.pos].K == "query" {
		out = append(out, c.Ops[c.pos])
		c.pos++
	}
	return out
}

func probeAmount(rt *rapid.T, gs *pf.GameState, p *pf.PlayerState, cw, prs int64) int64 {
	cands := []int64{1, gs.Status.MiniBet, cw + prs, cw + 2*prs + 1, p.StackSize, p.StackSize / 2, 0, -3, cw, p.InitialStackSize + 5}
	return cands[rapid.IntRange(0, len(cands)-1).Draw(rt, "probeAmount")]
}

// ReplayChooser replays recorded choices (table steps are not choices and are
// taken from the engine's event, so a replay adapts when a repaired engine asks
// for a step the recording did not contain).
type ReplayChooser struct {
	Ops []Op
	pos int
}

func (c *ReplayChooser) skipTable() {
	for c.pos < len(c.Ops) {
		switch c.Ops[c.pos].K {
		case "ready", "ante", "blinds", "next":
			c.pos++
		default:
			return
		}
	}
}

func (c *ReplayChooser) Probes(h *Hand, gs *pf.GameState) []Op {
	c.skipTable()
	var out []Op
	for c.pos < len(c.Ops) && c.Ops[c.pos].K == "probe" {
		op := c.Ops[c.pos]
		op.Res = ""
		if op.Seat >= len(gs.Players) {
			h.Diverged = true
			c.pos++
			continue
		}
		out = append(out, op)
		c.pos++
	}
	return out
}

func (c *ReplayChooser) Cut(h *Hand) string {
	c.skipTable()
	if c.pos < len(c.Ops) && c.Ops[c.pos].K == "cut" {
		how := c.Ops[c.pos].A
		c.pos++
		if how == "" {
			how = "new"
		}
		return how
	}
	return ""
}

func (c *ReplayChooser) Decide(h *Hand, gs *pf.GameState) Op {
	c.skipTable()
	cp := gs.Status.CurrentPlayer
	if c.pos < len(c.Ops) && c.Ops[c.pos].K == "act" {
		op := c.Ops[c.pos]
		c.pos++
		if op.Seat == cp {
			op.Res = ""
			return op
		}
	}
	// the recording does not fit any more: finish the hand passively
	h.Diverged = true
	aa := gs.Players[cp].AllowedActions
	for _, a := range []string{"pass", "check", "call", "fold", "allin"} {
		if hasStr(aa, a) {
			return Op{K: "act", Seat: cp, A: a}
		}
	}
	return Op{K: "act", Seat: cp, A: "pass"}
}
