package hand

import (
	"fmt"

	pf "github.com/weedbox/pokerface"
	"github.com/weedbox/pokerface/combination"

	"verif/harness/cards"
	"verif/harness/pots"
	"verif/vlib"
)

// ---------------------------------------------------------------------------
// C16 (engine mode) — Status.Pots at every publication point
// ---------------------------------------------------------------------------

type potsMon struct{}

func (m *potsMon) Begin(h *Hand, gs *pf.GameState) *vlib.Violation { return nil }
func (m *potsMon) End(h *Hand, gs *pf.GameState) *vlib.Violation   { return nil }

func vecOf(gs *pf.GameState) pots.Vec {
	v := pots.Vec{}
	for _, p := range gs.Players {
		v.C = append(v.C, p.Pot+p.Wager)
		v.F = append(v.F, p.Fold)
		v.S = append(v.S, 1)
	}
	return v
}

func (m *potsMon) Observe(h *Hand, t *Trans) *vlib.Violation {
	if t.Probe || t.Err != nil {
		return nil
	}
	gs := t.Post
	ev := gs.Status.CurrentEvent
	published := ev == "RoundClosed" || ev == "GameClosed" || t.Op.K == "ante"
	if !published {
		return nil
	}
	v := vecOf(gs)
	if t.Op.K == "ante" && ev != "RoundClosed" && ev != "GameClosed" {
		// pots published from the antes before the blinds were posted
		for i, p := range gs.Players {
			v.C[i] = p.Pot
		}
	}
	h.St.Count("publications_checked", 1)
	npots, _, fp, zero, _ := pots.Classify(v)
	if npots >= 2 {
		h.Facts["pots>=2"] = true
	}
	if npots >= 3 {
		h.Facts["pots>=3"] = true
	}
	if fp {
		h.Facts["folded-partial-contributor"] = true
	}
	if zero {
		h.Facts["zero-contribution"] = true
	}
	if viol := pots.CheckPots(v, gs.Status.Pots); viol != nil {
		viol.Signature = "engine/" + viol.Signature
		viol.Detail = fmt.Sprintf("pots published at %s (round %s) after %s: %s", ev, gs.Status.Round, t.Op, viol.Detail)
		return viol
	}
	return nil
}

// ---------------------------------------------------------------------------
// C02 (engine mode) — the settlement of a really played hand
// ---------------------------------------------------------------------------

type settleMon struct{}

func (m *settleMon) Begin(h *Hand, gs *pf.GameState) *vlib.Violation { return nil }
func (m *settleMon) Observe(h *Hand, t *Trans) *vlib.Violation       { return nil }

func (m *settleMon) End(h *Hand, gs *pf.GameState) *vlib.Violation {
	if gs.Result == nil {
		// a closed hand without a settlement pays nobody
		return vlib.V("C02", "engine/no-result", "the hand is closed (%d players still in) and carries no settlement result: nobody has been paid", aliveCount(gs))
	}
	c := h.Cfg
	table := combination.PowerRankings(gs.Meta.CombinationPowers)
	v := pots.Vec{}
	alive := aliveCount(gs)
	// strengths: the best admissible selection by the public evaluator (whose
	// order C03 establishes) over the harness' own enumeration; ranks are
	// compressed to small integers
	scores := make([]uint64, len(gs.Players))
	for i, p := range gs.Players {
		v.C = append(v.C, p.Pot+p.Wager)
		v.F = append(v.F, p.Fold)
		if p.Fold {
			continue
		}
		if alive == 1 {
			scores[i] = 1
			continue
		}
		for _, s := range cards.Admissible(p.HoleCards, gs.Status.Board, c.Req) {
			if sc := combination.CalculatePower(table, append([]string{}, s...)).Score; sc+1 > scores[i] {
				scores[i] = sc + 1
			}
		}
	}
	for i := range gs.Players {
		rank := 1
		for j := range gs.Players {
			if scores[j] < scores[i] && !v.F[j] {
				rank++
			}
		}
		v.S = append(v.S, rank)
	}
	changed := map[int]int64{}
	for _, pr := range gs.Result.Players {
		changed[pr.Idx] += pr.Changed
	}
	npots, tie, fp, _, mlt := pots.Classify(v)
	h.Facts["pots>=2"] = npots >= 2
	h.Facts["tie"] = tie && alive >= 2
	h.Facts["folded-partial-contributor"] = fp
	h.Facts["tie-in-multi-layer-pot"] = mlt
	h.Facts["showdown"] = alive >= 2
	if viol := pots.CheckSettle(v, changed); viol != nil {
		viol.Signature = "engine/" + viol.Signature
		viol.Detail = fmt.Sprintf("settlement of a played hand (board %v): %s", gs.Status.Board, viol.Detail)
		return viol
	}
	return nil
}
