package hand

import (
	"fmt"

	pf "github.com/weedbox/pokerface"

	"verif/vlib"
)

// ---------------------------------------------------------------------------
// C04 — only the player to act can act, clockwise, in the right phase
// ---------------------------------------------------------------------------

type orderMon struct{}

func (m *orderMon) Begin(h *Hand, gs *pf.GameState) *vlib.Violation { return nil }
func (m *orderMon) End(h *Hand, gs *pf.GameState) *vlib.Violation   { return nil }

func probeKind(op Op, pre *pf.GameState) string {
	ev := pre.Status.CurrentEvent
	if op.Seat < 0 {
		switch op.A {
		case "ready", "ante", "blinds", "next":
			return "table-op:" + op.A + "@" + ev
		}
		if ev == "RoundStarted" {
			return "unoffered:" + op.A
		}
		return "action-outside-round:" + op.A + "@" + ev
	}
	if ev == "RoundStarted" {
		if op.Seat == pre.Status.CurrentPlayer {
			return "unoffered:" + op.A
		}
		return "other-seat:" + op.A
	}
	return "action-outside-round:" + op.A + "@" + ev
}

func (m *orderMon) Observe(h *Hand, t *Trans) *vlib.Violation {
	pre, post := t.Pre, t.Post
	n := len(post.Players)
	if t.Probe {
		kind := probeKind(t.Op, pre)
		h.St.Count("probes", 1)
		h.St.Class("probe:" + kind[:indexOrLen(kind, '@')])
		h.Facts["probed"] = true
		if !t.Unchanged() {
			return vlib.V("C04", "probe-changed-state/"+kind, "%s at %s (current seat %d, offered %v) changed the state (err=%v)", t.Op, pre.Status.CurrentEvent, pre.Status.CurrentPlayer, offered(pre), t.Err)
		}
		if t.Err == nil {
			return vlib.V("C04", "probe-not-refused/"+kind, "%s at %s (current seat %d, offered %v) returned no error", t.Op, pre.Status.CurrentEvent, pre.Status.CurrentPlayer, offered(pre))
		}
		return nil
	}
	// whatever was requested, the action the engine says it carried out must be one
	// the seat had been offered (a raise request may legitimately end as an all-in
	// or, at the level of the wager, as a call - but only if that was on offer)
	if t.Op.K == "act" && t.Err == nil && post.Status.LastAction != nil && pre.Status.CurrentEvent == "RoundStarted" {
		did := post.Status.LastAction.Type
		was := pre.Players[pre.Status.CurrentPlayer].AllowedActions
		// (only judged when the engine uses the action vocabulary of the offers)
		if post.Status.LastAction.Source == pre.Status.CurrentPlayer && hasStr(allActions, did) && !hasStr(was, did) {
			return vlib.V("C04", "carried-out-unoffered/"+did, "%s: the engine carried out %q for seat %d, who had been offered %v", t.Op, did, pre.Status.CurrentPlayer, was)
		}
	}
	if post.Status.CurrentEvent != "RoundStarted" {
		return nil
	}
	cp := post.Status.CurrentPlayer
	if cp < 0 || cp >= n {
		return vlib.V("C04", "no-current-player", "after %s: current player %d", t.Op, cp)
	}
	// exactly one seat is offered actions, and it is the current player
	for _, p := range post.Players {
		if p.Idx != cp && len(p.AllowedActions) != 0 {
			return vlib.V("C04", "second-seat-offered", "after %s: seat %d is offered %v while seat %d is to act", t.Op, p.Idx, p.AllowedActions, cp)
		}
	}
	cur := post.Players[cp]
	if len(cur.AllowedActions) == 0 {
		return vlib.V("C04", "nobody-offered", "after %s: seat %d is to act but is offered nothing", t.Op, cp)
	}
	if cur.Fold || cur.StackSize == 0 {
		if len(cur.AllowedActions) != 1 || cur.AllowedActions[0] != "pass" {
			return vlib.V("C04", "inactive-seat-offered", "after %s: seat %d (fold=%v stack=%d) is offered %v", t.Op, cp, cur.Fold, cur.StackSize, cur.AllowedActions)
		}
	}
	switch {
	case t.Op.K == "ready" && t.Err == nil:
		want := (seatWith(post, "dealer") + 1) % n
		if post.Status.Round == "preflop" {
			want = (seatWith(post, "bb") + 1) % n
		}
		h.St.Class("round-start:" + post.Status.Round)
		if cp != want {
			return vlib.V("C04", "first-to-act/"+post.Status.Round, "%s round starts with seat %d, expected seat %d (dealer %d, bb %d, %d seats)", post.Status.Round, cp, want, seatWith(post, "dealer"), seatWith(post, "bb"), n)
		}
	case t.Op.K == "act" && t.Err == nil:
		if want := (pre.Status.CurrentPlayer + 1) % n; cp != want {
			return vlib.V("C04", "turn-order", "after %s the turn went to seat %d, expected seat %d", t.Op, cp, want)
		}
	case t.Op.K == "act" && t.Err != nil:
		if cp != pre.Status.CurrentPlayer {
			return vlib.V("C04", "turn-moved-on-refusal", "refused %s moved the turn from seat %d to %d", t.Op, pre.Status.CurrentPlayer, cp)
		}
	}
	return nil
}

func indexOrLen(s string, b byte) int {
	for i := 0; i < len(s); i++ {
		if s[i] == b {
			return i
		}
	}
	return len(s)
}

func offered(gs *pf.GameState) []string {
	cp := gs.Status.CurrentPlayer
	if cp < 0 || cp >= len(gs.Players) {
		return nil
	}
	return gs.Players[cp].AllowedActions
}

// ---------------------------------------------------------------------------
// C05 — a betting round closes exactly when it should
// ---------------------------------------------------------------------------

type closeMon struct {
	street      string
	opened      bool // a betting round was opened on this street
	turns       int  // turn requests since the last wager increase / all-in / round start
	hadTurn     map[int]bool
	eventful    bool // the round saw a raise or a short all-in followed by a further turn
	pendingEvt  bool
	foldedOut   bool // one player left: next step must close the hand
	boardAtFold int
}

func (m *closeMon) Begin(h *Hand, gs *pf.GameState) *vlib.Violation {
	m.hadTurn = map[int]bool{}
	return nil
}

func (m *closeMon) End(h *Hand, gs *pf.GameState) *vlib.Violation {
	if aliveCount(gs) >= 2 && len(gs.Status.Board) != 5 {
		return vlib.V("C05", "showdown-short-board", "showdown between %d players on a board of %d cards", aliveCount(gs), len(gs.Status.Board))
	}
	return nil
}

func (m *closeMon) Observe(h *Hand, t *Trans) *vlib.Violation {
	// whenever the hand says the round is closed - also after an operation that was
	// not expected but accepted - nobody with chips may be behind the wager to match
	if t.Err == nil && t.Post.Status.CurrentEvent == "RoundClosed" && aliveCount(t.Post) >= 2 {
		toMatch := wagerToMatch(t.Post)
		for _, q := range t.Post.Players {
			if !q.Fold && q.StackSize > 0 && (q.Wager != t.Post.Status.CurrentWager || q.Wager < toMatch) {
				how := "after"
				if t.Probe {
					how = "after the unexpected but accepted"
				}
				return vlib.V("C05", "closed-early/owes", "%s round is closed %s %s while seat %d has wagered %d of %d and holds %d", t.Post.Status.Round, how, t.Op, q.Idx, q.Wager, maxI64(toMatch, t.Post.Status.CurrentWager), q.StackSize)
			}
		}
	}
	if t.Probe || t.Err != nil {
		return nil
	}
	pre, post := t.Pre, t.Post
	n := len(post.Players)
	ev := post.Status.CurrentEvent
	if post.Status.Round != m.street {
		m.street = post.Status.Round
		m.opened = false
		m.turns = 0
		m.hadTurn = map[int]bool{}
		m.pendingEvt = false
	}
	if m.foldedOut {
		// the step after the fold-out must end the hand without dealing
		if ev != "GameClosed" {
			return vlib.V("C05", "not-ended-at-once", "one player left after a fold, but %s led to %s", t.Op, ev)
		}
		if len(post.Status.Board) != m.boardAtFold {
			return vlib.V("C05", "dealt-after-fold-out", "board grew from %d to %d cards after everyone else folded", m.boardAtFold, len(post.Status.Board))
		}
		m.foldedOut = false
		return nil
	}
	// no further betting round is opened with fewer than two players holding chips
	if ev == "ReadyRequested" && (m.street == "flop" || m.street == "turn" || m.street == "river") && movableCount(post) < 2 {
		return vlib.V("C05", "round-opened/"+m.street, "a %s betting round is being opened with %d player(s) holding chips", m.street, movableCount(post))
	}
	if t.Op.K == "act" {
		cp := pre.Status.CurrentPlayer
		m.hadTurn[cp] = true
		rose := post.Status.CurrentWager > pre.Status.CurrentWager
		wentAllin := post.Players[cp].StackSize == 0 && pre.Players[cp].StackSize > 0
		if rose {
			m.hadTurn = map[int]bool{cp: true}
		}
		if rose || wentAllin {
			m.turns = 0
			m.pendingEvt = true
		}
		if aliveCount(post) == 1 {
			if ev != "RoundClosed" {
				return vlib.V("C05", "not-ended-at-once", "one player left after %s, but the event is %s", t.Op, ev)
			}
			m.foldedOut = true
			m.boardAtFold = len(post.Status.Board)
			h.Facts["fold-out"] = true
			return nil
		}
	}
	if ev == "RoundStarted" && (t.Op.K == "ready" || t.Op.K == "act") {
		m.opened = true
		m.turns++
		if t.Op.K == "act" && m.pendingEvt {
			m.eventful = true
			h.Facts["eventful-round"] = true
		}
		if m.turns > n {
			return vlib.V("C05", "late-close", "%d turns in the %s round since the last wager increase / all-in, table has %d seats", m.turns, m.street, n)
		}
	}
	if ev == "RoundClosed" && (pre.Status.CurrentEvent != "RoundClosed" || pre.Status.Round != post.Status.Round) && aliveCount(post) >= 2 {
		needTurn := m.opened || movableCount(post) >= 2
		for _, q := range post.Players {
			if q.Fold || q.StackSize == 0 {
				continue
			}
			if tm := wagerToMatch(post); q.Wager != post.Status.CurrentWager || q.Wager < tm {
				return vlib.V("C05", "closed-early/owes", "%s round closed after %s while seat %d has wagered %d of %d and holds %d", m.street, t.Op, q.Idx, q.Wager, maxI64(tm, post.Status.CurrentWager), q.StackSize)
			}
			if needTurn && !m.hadTurn[q.Idx] {
				return vlib.V("C05", "closed-early/no-turn", "%s round closed after %s before seat %d had a turn since the wager last went up", m.street, t.Op, q.Idx)
			}
		}
		if m.opened {
			h.St.Class("rounds-closed")
			if m.eventful {
				h.St.Class("rounds-closed-after-raise-or-allin")
			}
			m.eventful = false
		}
	}
	return nil
}

// wagerToMatch: the highest wager of a player still in the hand, whatever the
// engine's own current_wager field says.
func wagerToMatch(gs *pf.GameState) int64 {
	var m int64
	for _, p := range gs.Players {
		if !p.Fold && p.Wager > m {
			m = p.Wager
		}
	}
	return m
}

// ---------------------------------------------------------------------------
// C06 — a hand always tells its driver what comes next and always finishes
// ---------------------------------------------------------------------------

type progressMon struct {
	seen     map[uint64]bool
	streets  []string
	events   int // wager increases and all-ins
	hadError bool
}

var streetOrder = []string{"preflop", "flop", "turn", "river"}
var boardOf = map[string]int{"": 0, "preflop": 0, "flop": 3, "turn": 4, "river": 5}

func stateHash(gs *pf.GameState) uint64 {
	c := *gs
	c.UpdatedAt = 0
	st := c.Status
	st.LastAction = nil
	c.Status = st
	return vlib.Hash(Norm(&c))
}

func (m *progressMon) Begin(h *Hand, gs *pf.GameState) *vlib.Violation {
	m.seen = map[uint64]bool{stateHash(gs): true}
	if gs.Status.CurrentEvent != "ReadyRequested" {
		return vlib.V("C06", "first-wait", "after Start() the hand waits in %q", gs.Status.CurrentEvent)
	}
	if gs.Result != nil {
		return vlib.V("C06", "result-before-close", "result present after Start()")
	}
	return nil
}

func expectedToSucceed(t *Trans) bool {
	switch t.Op.K {
	case "ready", "ante", "blinds", "next":
		return true
	case "act":
		cp := t.Pre.Status.CurrentPlayer
		p := t.Pre.Players[cp]
		if !hasStr(p.AllowedActions, t.Op.A) {
			return false
		}
		switch t.Op.A {
		case "bet":
			return t.Op.X > 0
		case "raise":
			return t.Op.X > t.Pre.Status.CurrentWager
		}
		return true
	}
	return false
}

func (m *progressMon) Observe(h *Hand, t *Trans) *vlib.Violation {
	pre, post := t.Pre, t.Post
	if t.Probe {
		if pre.Status.CurrentEvent == "GameClosed" {
			h.St.Count("probes_after_close", 1)
			if !t.Unchanged() {
				return vlib.V("C06", "accepts-after-close/changed", "%s on a closed hand changed the state (err=%v)", t.Op, t.Err)
			}
			if t.Err == nil && t.Op.A != "resume" {
				return vlib.V("C06", "accepts-after-close", "%s on a closed hand returned no error", t.Op)
			}
			return nil
		}
		// An operation the hand is not waiting for. Whether it must be refused is
		// C04's business; if the engine accepts it, it is a step of the reachable
		// graph and must not lead back to a state the hand has been in (that would
		// be a path that never ends).
		h.St.Count("off_protocol_attempts", 1)
		if t.Err != nil {
			return nil
		}
		h.St.Count("off_protocol_accepted", 1)
		hsh := stateHash(post)
		if m.seen[hsh] {
			return vlib.V("C06", "state-repeats/off-protocol:"+probeKind(t.Op, pre), "%s at %s was accepted and leaves the hand in a state it has been in before: it can be repeated for ever, the hand need not finish", t.Op, pre.Status.CurrentEvent)
		}
		m.seen[hsh] = true
		return nil
	}
	if t.Err != nil {
		m.hadError = true
		if expectedToSucceed(t) {
			return vlib.V("C06", "expected-step-failed/"+opSig(t.Op, pre), "the hand waits in %s, the step it names (%s) failed: %v", pre.Status.CurrentEvent, t.Op, t.Err)
		}
		return nil
	}
	// accepted step
	if t.Unchanged() {
		return vlib.V("C06", "step-without-effect/"+t.Op.K, "%s in %s returned nil and changed nothing", t.Op, pre.Status.CurrentEvent)
	}
	hsh := stateHash(post)
	if m.seen[hsh] {
		return vlib.V("C06", "state-repeats", "after %s the hand is in a state it has been in before (event %s)", t.Op, post.Status.CurrentEvent)
	}
	m.seen[hsh] = true
	switch post.Status.CurrentEvent {
	case "ReadyRequested", "AnteRequested", "BlindsRequested", "RoundClosed", "GameClosed":
	case "RoundStarted":
		cp := post.Status.CurrentPlayer
		if cp < 0 || cp >= len(post.Players) || len(post.Players[cp].AllowedActions) == 0 {
			return vlib.V("C06", "nothing-offered", "after %s the hand waits for seat %d, who is offered nothing", t.Op, cp)
		}
		// the single thing it is waiting for: nobody else is asked at the same time
		for _, q := range post.Players {
			if q.Idx != cp && len(q.AllowedActions) > 0 {
				return vlib.V("C06", "waits-for-two-seats", "after %s the hand waits for seat %d and for seat %d (offered %v) at the same time", t.Op, cp, q.Idx, q.AllowedActions)
			}
		}
	default:
		return vlib.V("C06", "unexpected-wait-event/"+post.Status.CurrentEvent, "after %s the hand waits in event %q", t.Op, post.Status.CurrentEvent)
	}
	// streets strictly in order, with the right boards
	r := post.Status.Round
	if len(m.streets) == 0 || m.streets[len(m.streets)-1] != r {
		if r != "" {
			idx := len(m.streets)
			if idx >= len(streetOrder) || streetOrder[idx] != r {
				return vlib.V("C06", "street-order", "streets so far %v, now %q", m.streets, r)
			}
			m.streets = append(m.streets, r)
		}
	}
	if want, ok := boardOf[r]; !ok || len(post.Status.Board) != want {
		return vlib.V("C06", "board-size/"+r, "round %q with a board of %d cards", r, len(post.Status.Board))
	}
	if (post.Result != nil) != (post.Status.CurrentEvent == "GameClosed") {
		return vlib.V("C06", "result-presence", "event %s, result present: %v", post.Status.CurrentEvent, post.Result != nil)
	}
	if t.Op.K == "act" {
		cp := pre.Status.CurrentPlayer
		if post.Status.CurrentWager > pre.Status.CurrentWager || (post.Players[cp].StackSize == 0 && pre.Players[cp].StackSize > 0) {
			m.events++
		}
	}
	n := len(post.Players)
	if bound := 16 + n*(4+m.events); h.Accepted > bound {
		return vlib.V("C06", "step-bound", "%d accepted steps, bound 16+n(4+E) = %d (n=%d, E=%d)", h.Accepted, bound, n, m.events)
	}
	return nil
}

func (m *progressMon) End(h *Hand, gs *pf.GameState) *vlib.Violation {
	if gs.Result == nil {
		return vlib.V("C06", "closed-without-result", "the hand is closed but has no settlement result")
	}
	h.Facts["streets>=2"] = len(m.streets) >= 2
	h.Facts["all-in-runout"] = movableCount(gs) < 2 && aliveCount(gs) >= 2
	h.St.Count("max_accepted_steps_seen", 0)
	return nil
}

// ---------------------------------------------------------------------------
// C13 — antes and blinds are posted by the right seats in the right amounts
// ---------------------------------------------------------------------------

type forcedMon struct{ done bool }

func (m *forcedMon) Begin(h *Hand, gs *pf.GameState) *vlib.Violation { return nil }
func (m *forcedMon) End(h *Hand, gs *pf.GameState) *vlib.Violation   { return nil }

func (m *forcedMon) Observe(h *Hand, t *Trans) *vlib.Violation {
	if t.Probe || t.Err != nil {
		return nil
	}
	gs := t.Post
	c := h.Cfg
	if t.Op.K == "ante" {
		// right after PayAnte(): the ante is in the pot and does not count as a wager
		for _, p := range gs.Players {
			if want := minI64(c.Ante, p.Bankroll); p.Pot != want {
				return vlib.V("C13", "ante-amount", "after PayAnte seat %d (bankroll %d) has %d in the pot, ante is %d", p.Idx, p.Bankroll, p.Pot, c.Ante)
			}
		}
		if gs.Status.CurrentEvent == "BlindsRequested" {
			if gs.Status.CurrentWager != 0 {
				return vlib.V("C13", "ante-counts-as-wager", "after PayAnte the wager to match is %d", gs.Status.CurrentWager)
			}
			for _, p := range gs.Players {
				if p.Wager != 0 {
					return vlib.V("C13", "ante-counts-as-wager", "after PayAnte seat %d has a wager of %d", p.Idx, p.Wager)
				}
			}
		}
	}
	if m.done || !(gs.Status.Round == "preflop" && (gs.Status.CurrentEvent == "ReadyRequested" || (gs.Status.CurrentEvent == "RoundClosed" && t.Pre.Status.CurrentEvent != "RoundStarted"))) {
		return nil
	}
	m.done = true
	return checkForced(c, gs)
}

func checkForced(c *Cfg, gs *pf.GameState) *vlib.Violation {
	var maxBlind int64
	for _, p := range gs.Players {
		ante := minI64(c.Ante, p.Bankroll)
		if p.Pot != ante {
			return vlib.V("C13", "ante-amount", "seat %d (bankroll %d) has %d in the pot, ante is %d", p.Idx, p.Bankroll, p.Pot, c.Ante)
		}
		rest := p.Bankroll - ante
		cands := map[int64]bool{}
		isbb, issb, isd := hasStr(p.Positions, "bb"), hasStr(p.Positions, "sb"), hasStr(p.Positions, "dealer")
		who := "nobody"
		switch {
		case isbb:
			cands[minI64(c.BB, rest)] = true
			who = "bb"
		case issb && isd:
			// heads-up the dealer is the small blind and owes it; whether a dealer
			// blind is due on top of it is not fixed by the statement (with no small
			// blind configured the dealer blind is what the seat posts)
			if c.SB > 0 {
				cands[minI64(c.SB, rest)] = true
				if c.DB > 0 {
					cands[minI64(c.SB+c.DB, rest)] = true
				}
			} else {
				cands[minI64(c.DB, rest)] = true // no small blind configured: the dealer blind (if any) is due
			}
			who = "dealer+sb"
		case issb:
			cands[minI64(c.SB, rest)] = true
			who = "sb"
		case isd:
			cands[minI64(c.DB, rest)] = true
			who = "dealer"
		default:
			cands[0] = true
		}
		if !cands[p.Wager] {
			return vlib.V("C13", "blind-amount/"+who, "seat %d %v (bankroll %d, %d after the ante) has posted %d; blinds sb=%d bb=%d dealer=%d", p.Idx, p.Positions, p.Bankroll, rest, p.Wager, c.SB, c.BB, c.DB)
		}
		if p.Wager > maxBlind {
			maxBlind = p.Wager
		}
		if p.StackSize != p.Bankroll-p.Pot-p.Wager {
			return vlib.V("C13", "stack", "seat %d stack %d, bankroll %d pot %d wager %d", p.Idx, p.StackSize, p.Bankroll, p.Pot, p.Wager)
		}
	}
	if gs.Status.CurrentWager != maxBlind {
		return vlib.V("C13", "wager-to-match", "wager to match is %d, largest blind posted is %d", gs.Status.CurrentWager, maxBlind)
	}
	// "with the big blind as the minimum raise": a game without a big blind
	// (button-blind and ante-only games) is not covered by that clause
	if c.BB > 0 && gs.Status.PreviousRaiseSize != c.BB {
		return vlib.V("C13", "minimum-raise", "minimum raise is %d, big blind is %d", gs.Status.PreviousRaiseSize, c.BB)
	}
	return nil
}

func forcedNonTrivial(c *Cfg) bool {
	near := func(a, b int64) bool { return a-b <= 1 && b-a <= 1 }
	for i, b := range c.Bank {
		pos := c.Positions(i)
		if c.Ante > 0 && near(b, c.Ante) {
			return true
		}
		rest := b - minI64(c.Ante, b)
		if hasStr(pos, "bb") && near(rest, c.BB) {
			return true
		}
		if hasStr(pos, "sb") && c.SB > 0 && near(rest, c.SB) {
			return true
		}
		if hasStr(pos, "dealer") && c.DB > 0 && near(rest, c.DB) {
			return true
		}
	}
	return false
}

var _ = fmt.Sprint
