package hand

import (
	"encoding/json"
	"fmt"
	"reflect"
	"strings"

	pf "github.com/weedbox/pokerface"
	"github.com/weedbox/pokerface/combination"

	"verif/harness/cards"
	"verif/vlib"
)

// ---------------------------------------------------------------------------
// C14 — cards are dealt from the deck without loss, duplication or change
// ---------------------------------------------------------------------------

type dealMon struct {
	hole   [][]string
	board  []string
	burned []string
}

func (m *dealMon) Begin(h *Hand, gs *pf.GameState) *vlib.Violation {
	m.hole = make([][]string, len(gs.Players))
	return m.check(h, gs, "after Start()")
}

func (m *dealMon) End(h *Hand, gs *pf.GameState) *vlib.Violation {
	h.Facts["reached-flop"] = len(gs.Status.Board) >= 3
	h.Facts["early-ending"] = len(gs.Status.Board) < 5
	h.Facts["all-in-runout"] = movableCount(gs) < 2 && aliveCount(gs) >= 2 && len(gs.Status.Board) == 5
	return nil
}

func (m *dealMon) Observe(h *Hand, t *Trans) *vlib.Violation {
	return m.check(h, t.Post, fmt.Sprintf("after %s", t.Op))
}

func (m *dealMon) check(h *Hand, gs *pf.GameState, when string) *vlib.Violation {
	c := h.Cfg
	if !reflect.DeepEqual(gs.Meta.Deck, c.Deck) {
		return vlib.V("C14", "deck-changed", "%s: the deck differs from the deck the hand started with", when)
	}
	dealtHole := gs.Status.Round != ""
	used := []string{}
	for i, p := range gs.Players {
		want := 0
		if dealtHole {
			want = c.Hole
		}
		// before the first street the statement does not say when the cards are
		// handed out: none yet or all of them are both fine
		if len(p.HoleCards) != want && !(!dealtHole && len(p.HoleCards) == c.Hole) {
			return vlib.V("C14", "hole-card-count", "%s (round %q): seat %d holds %d hole cards, expected %d", when, gs.Status.Round, p.Idx, len(p.HoleCards), want)
		}
		if len(m.hole[i]) > 0 && !reflect.DeepEqual(m.hole[i], p.HoleCards) {
			return vlib.V("C14", "hole-cards-changed", "%s: seat %d held %v, now %v", when, p.Idx, m.hole[i], p.HoleCards)
		}
		m.hole[i] = append([]string(nil), p.HoleCards...)
		used = append(used, p.HoleCards...)
	}
	b, bu := gs.Status.Board, gs.Status.Burned
	wantBurn := map[int]int{0: 0, 3: 1, 4: 2, 5: 3}
	if wb, ok := wantBurn[len(b)]; !ok || wb != len(bu) {
		return vlib.V("C14", "board-burn-count", "%s: board of %d cards with %d burned", when, len(b), len(bu))
	}
	if want, ok := boardOf[gs.Status.Round]; ok && want != len(b) {
		return vlib.V("C14", "board-size/"+gs.Status.Round, "%s: round %q with a board of %d cards", when, gs.Status.Round, len(b))
	}
	if !isPrefix(m.board, b) || !isPrefix(m.burned, bu) {
		return vlib.V("C14", "dealt-cards-changed", "%s: board %v -> %v, burned %v -> %v", when, m.board, b, m.burned, bu)
	}
	m.board = append([]string(nil), b...)
	m.burned = append([]string(nil), bu...)
	used = append(used, b...)
	used = append(used, bu...)
	if len(used) != gs.Status.CurrentDeckPosition {
		return vlib.V("C14", "deck-position", "%s: %d cards are out, deck position is %d", when, len(used), gs.Status.CurrentDeckPosition)
	}
	if gs.Status.CurrentDeckPosition > len(c.Deck) {
		return vlib.V("C14", "deck-position", "%s: deck position %d beyond the deck", when, gs.Status.CurrentDeckPosition)
	}
	// no card is ever dealt twice (the generated decks hold distinct cards; a deck
	// that comes from the engine's own constructor has to as well)
	seenCard := map[string]bool{}
	for _, cd := range used {
		if seenCard[cd] {
			return vlib.V("C14", "dealt-twice", "%s: card %q is out twice (hole cards, board and burned cards: %v)", when, cd, used)
		}
		seenCard[cd] = true
	}
	cnt := map[string]int{}
	for _, cd := range c.Deck[:gs.Status.CurrentDeckPosition] {
		cnt[cd]++
	}
	for _, cd := range used {
		cnt[cd]--
		if cnt[cd] < 0 {
			return vlib.V("C14", "not-top-of-deck", "%s: card %s is out twice or does not come from the consumed top of the deck (%v)", when, cd, c.Deck[:gs.Status.CurrentDeckPosition])
		}
	}
	return nil
}

func isPrefix(a, b []string) bool {
	if len(a) > len(b) {
		return false
	}
	for i := range a {
		if a[i] != b[i] {
			return false
		}
	}
	return true
}

// ---------------------------------------------------------------------------
// C15 — player and observer views never leak hidden cards
// ---------------------------------------------------------------------------

type viewMon struct {
	every int
	n     int
}

func (m *viewMon) Begin(h *Hand, gs *pf.GameState) *vlib.Violation {
	if m.every > 1 {
		// which states of a hand are sampled differs from hand to hand
		m.n = int(vlib.Hash(h.Cfg.Deck) % uint64(m.every))
	}
	return checkViews(h, gs)
}
func (m *viewMon) End(h *Hand, gs *pf.GameState) *vlib.Violation {
	folded, shown := 0, 0
	for _, p := range gs.Players {
		if p.Fold {
			folded++
		} else {
			shown++
		}
	}
	h.Facts["closed-with-folded-and-shown"] = folded >= 1 && shown >= 2
	return checkViews(h, gs)
}

func (m *viewMon) Observe(h *Hand, t *Trans) *vlib.Violation {
	if t.Probe {
		return nil
	}
	m.n++
	if m.every > 1 && m.n%m.every != 0 && t.Post.Status.CurrentEvent != "GameClosed" {
		return nil
	}
	return checkViews(h, t.Post)
}

func checkViews(h *Hand, gs *pf.GameState) *vlib.Violation {
	closed := gs.Status.CurrentEvent == "GameClosed"
	orig := Norm(gs)
	if len(gs.Status.Burned) > 0 {
		h.Facts["burned-cards"] = true
	}
	// viewers: the observer, every seat of the hand, and seats of the table that
	// are not in the hand (a table passes -1 for a player who is not dealt in, or
	// an index beyond the players): they are shown what an observer is shown at most
	n := len(gs.Players)
	type viewer struct {
		v   int // the seat whose own cards stay visible (matches no seat for the observer and outsiders)
		arg int // what AsPlayer is called with
		who string
	}
	viewers := []viewer{{v: -1, who: "observer"}}
	for i := 0; i < n; i++ {
		viewers = append(viewers, viewer{v: i, arg: i, who: fmt.Sprintf("seat %d", i)})
	}
	for _, a := range []int{-1, n, n + 7} {
		viewers = append(viewers, viewer{v: -2, arg: a, who: fmt.Sprintf("seat %d, which is not in the hand,", a)})
	}
	for _, vw := range viewers {
		v, who := vw.v, vw.who
		s := JSONClone(gs)
		var pan interface{}
		func() {
			defer func() {
				if e := recover(); e != nil {
					pan = e
				}
			}()
			if v == -1 {
				s.AsObserver()
			} else {
				s.AsPlayer(vw.arg)
			}
		}()
		if pan != nil {
			return vlib.V("C15", "panic", "view for %s panicked: %v", who, pan)
		}
		h.St.Count("views", 1)
		js, _ := json.Marshal(s)
		txt := string(js)
		secret := map[string]string{}
		for _, cd := range gs.Meta.Deck[minInt(gs.Status.CurrentDeckPosition, len(gs.Meta.Deck)):] {
			secret[cd] = "undealt-deck"
		}
		for _, cd := range gs.Status.Burned {
			secret[cd] = "burned"
		}
		hidden := func(p *pf.PlayerState) bool { return p.Idx != v && (!closed || p.Fold) }
		for _, p := range gs.Players {
			if hidden(p) {
				for _, cd := range p.HoleCards {
					if closed {
						secret[cd] = "folded-hole-cards"
					} else {
						secret[cd] = "other-hole-cards"
					}
				}
			}
		}
		for cd, what := range secret {
			if strings.Contains(txt, `"`+cd+`"`) {
				// a board card can legitimately appear; secrets are never on the board
				return vlib.V("C15", "leak/"+what+"/"+viewKind(v, closed), "view for %s at %s contains %s (%s)", who, gs.Status.CurrentEvent, cd, what)
			}
		}
		for _, p := range s.Players {
			o := gs.Players[p.Idx]
			if hidden(o) && p.Combination != nil && (p.Combination.Power != 0 || p.Combination.Type != "" || len(p.Combination.Cards) > 0) {
				return vlib.V("C15", "leak/hand-evaluation/"+viewKind(v, closed), "view for %s at %s shows the hand evaluation of seat %d: %+v", who, gs.Status.CurrentEvent, p.Idx, *p.Combination)
			}
		}
		// the viewer's own cards and all public information are unchanged:
		// putting back exactly the redacted fields must give the original state
		r := JSONClone(s)
		r.Meta.Deck = gs.Meta.Deck
		r.Status.Burned = gs.Status.Burned
		if len(r.Players) != len(gs.Players) {
			return vlib.V("C15", "public-changed/"+viewKind(v, closed), "view for %s has %d players", who, len(r.Players))
		}
		for _, p := range r.Players {
			o := gs.Players[p.Idx]
			if hidden(o) {
				p.HoleCards = o.HoleCards
				p.Combination = o.Combination
			} else if p.Idx == v && blankCombination(p.Combination) {
				// the statement keeps the viewer's own cards; it does not promise
				// an evaluation of them: shown unchanged or not shown are both fine
				p.Combination = o.Combination
			}
		}
		if Norm(r) != orig {
			return vlib.V("C15", "public-changed/"+viewKind(v, closed), "view for %s at %s alters public or own information:\n view+redacted=%s\n original=%s", who, gs.Status.CurrentEvent, Norm(r), orig)
		}
	}
	return nil
}

func blankCombination(c *pf.CombinationInfo) bool {
	return c == nil || (c.Power == 0 && c.Type == "" && len(c.Cards) == 0)
}

func viewKind(v int, closed bool) string {
	k := "player"
	if v == -1 {
		k = "observer"
	} else if v < -1 {
		k = "outsider"
	}
	if closed {
		return k + "-closed"
	}
	return k + "-open"
}

func minInt(a, b int) int {
	if a < b {
		return a
	}
	return b
}

// ---------------------------------------------------------------------------
// C10 — each player's reported hand is their true best hand
// ---------------------------------------------------------------------------

type bestMon struct{}

func (m *bestMon) Begin(h *Hand, gs *pf.GameState) *vlib.Violation { return nil }
func (m *bestMon) End(h *Hand, gs *pf.GameState) *vlib.Violation   { return nil }

func (m *bestMon) Observe(h *Hand, t *Trans) *vlib.Violation {
	if t.Probe || t.Err != nil {
		return nil
	}
	// evaluate when the board changed, and once more at the close
	if len(t.Post.Status.Board) == len(t.Pre.Status.Board) && t.Post.Status.CurrentEvent != "GameClosed" {
		return nil
	}
	return checkBest(h, t.Post)
}

func checkBest(h *Hand, gs *pf.GameState) *vlib.Violation {
	board := gs.Status.Board
	if len(board) < 3 {
		return nil
	}
	c := h.Cfg
	table := combination.PowerRankings(gs.Meta.CombinationPowers)
	_, order := cards.Table(c.ShortTable)
	open := c.ShortDeck || c.ShortTable
	for _, p := range gs.Players {
		if p.Combination == nil {
			return vlib.V("C10", "no-evaluation", "seat %d has no hand evaluation with %d board cards", p.Idx, len(board))
		}
		sels := cards.Admissible(p.HoleCards, board, c.Req)
		var best uint64
		var bestSel []string
		var refBest uint64
		ambiguous := false
		for _, s := range sels {
			if sc := combination.CalculatePower(table, append([]string{}, s...)).Score; sc > best || bestSel == nil {
				best, bestSel = sc, s
			}
			if open && cards.IsA9876(s) {
				ambiguous = true
				continue
			}
			if k := cards.Rank(s).Key(order); k > refBest {
				refBest = k
			}
		}
		h.St.Count("evaluations_checked", 1)
		d := fmt.Sprintf("seat %d hole=%v board=%v required=%d reports %s %v power=%d", p.Idx, p.HoleCards, board, c.Req, p.Combination.Type, p.Combination.Cards, p.Combination.Power)
		street := map[int]string{3: "flop", 4: "turn", 5: "river"}[len(board)]
		cs := p.Combination.Cards
		if len(cs) != 5 {
			return vlib.V("C10", "not-five-cards/"+street, "%s", d)
		}
		inHole := 0
		seen := map[string]bool{}
		for _, cd := range cs {
			if seen[cd] {
				return vlib.V("C10", "card-twice/"+street, "%s", d)
			}
			seen[cd] = true
			if hasStr(p.HoleCards, cd) {
				inHole++
			} else if !hasStr(board, cd) {
				return vlib.V("C10", "foreign-card/"+street, "%s: %s is neither a hole card nor on the board", d, cd)
			}
		}
		if c.Req > 0 && inHole != c.Req {
			return vlib.V("C10", "required-hole-cards/"+street, "%s: uses %d hole cards", d, inHole)
		}
		ps := combination.CalculatePower(table, append([]string{}, cs...))
		if uint64(p.Combination.Power) != ps.Score || p.Combination.Type != combination.CombinationSymbol[ps.Combination] {
			return vlib.V("C10", "incoherent/"+street, "%s, but these five cards are %s with power %d", d, combination.CombinationSymbol[ps.Combination], ps.Score)
		}
		if uint64(p.Combination.Power) != best {
			return vlib.V("C10", "not-best/"+street, "%s, but %v scores %d", d, bestSel, best)
		}
		// second comparator, independent of the evaluator
		if !(open && cards.IsA9876(cs)) && !ambiguous {
			if k := cards.Rank(cs).Key(order); k < refBest {
				return vlib.V("C10", "not-best-by-reference/"+street, "%s, a better admissible selection exists by the rules of poker", d)
			}
		}
		rc := cards.Rank(cs).Cat
		if len(board) >= 4 && rc >= cards.Pair {
			h.Facts["real-choice"] = true
		}
		if c.Req > 0 {
			h.Facts["omaha"] = true
		}
		h.St.Class("best:" + cards.CatName[rc])
	}
	return nil
}
