// Package hand drives the real hold'em engine through generated
// configurations, decks and play histories and watches it with per-property
// monitors (DESIGN.md §3 G-CFG/G-DECK/G-PLAY, §4).
package hand

import (
	"fmt"

	pf "github.com/weedbox/pokerface"
	"pgregory.net/rapid"

	"verif/harness/cards"
)

// Cfg is one table configuration the engine accepts.
type Cfg struct {
	N          int      `json:"n"`
	Dealer     int      `json:"dealer"`
	DeadSB     bool     `json:"dead_sb,omitempty"`    // the seat after the dealer holds no position (as in Test_Actions_EmptySB_*)
	NoSBSeat   bool     `json:"no_sb_seat,omitempty"` // nobody holds the small blind: the big blind sits right after the dealer
	NoBBSeat   bool     `json:"no_bb_seat,omitempty"` // button-blind / ante-only game: only the dealer holds a position, SB = BB = 0
	Ante       int64    `json:"ante"`
	SB         int64    `json:"sb"`
	BB         int64    `json:"bb"`
	DB         int64    `json:"dealer_blind"`
	Limit      string   `json:"limit"`
	ShortDeck  bool     `json:"short_deck,omitempty"`
	ShortTable bool     `json:"short_table,omitempty"`
	Hole       int      `json:"hole"`
	Req        int      `json:"required"`
	Bank       []int64  `json:"bankrolls"`
	Deck       []string `json:"deck"`
	Theme      string   `json:"deck_theme,omitempty"`
	BurnOpt    int      `json:"burn_opt,omitempty"` // 0: the default BurnCount option; k > 0: BurnCount = k-1 (the rules burn one card per street whatever it says)
	// ConstructorDeck: hand the engine the slice returned by its own deck
	// constructor (what table/ does) and keep whatever order Start() shuffles it to
	ConstructorDeck bool `json:"constructor_deck,omitempty"`
	// Prelude: the game object has played PreludeSteps operations of this other
	// hand before it is given the options of the hand under test (ApplyOptions)
	Prelude      *Cfg  `json:"prelude,omitempty"`
	PreludeSteps int   `json:"prelude_steps,omitempty"`
	chipUnit     int64 // the table's betting unit when no big blind is configured
}

// Positions exactly as table/internal.go derives them from the seat manager.
func (c *Cfg) Positions(i int) []string {
	rel := (i - c.Dealer + c.N) % c.N
	if c.NoBBSeat {
		if rel == 0 {
			return []string{"dealer"}
		}
		return []string{}
	}
	if c.NoSBSeat {
		switch rel {
		case 0:
			return []string{"dealer"}
		case 1:
			return []string{"bb"}
		case 2:
			return []string{"ug"}
		}
		return []string{}
	}
	if c.N == 2 {
		if rel == 0 {
			return []string{"dealer", "sb"}
		}
		return []string{"bb"}
	}
	switch rel {
	case 0:
		return []string{"dealer"}
	case 1:
		if c.DeadSB {
			return []string{}
		}
		return []string{"sb"}
	case 2:
		return []string{"bb"}
	case 3:
		return []string{"ug"}
	}
	return []string{}
}

// unit: the chip unit stacks are sized in (the big blind; in button-blind games
// the unit the button blind and the ante were drawn from)
func (c *Cfg) unit() int64 {
	if c.BB > 0 {
		return c.BB
	}
	if c.chipUnit > 0 {
		return c.chipUnit
	}
	return maxI64(1, maxI64(c.DB, c.Ante))
}

func (c *Cfg) Options() *pf.GameOptions {
	// the ranking table comes from the engine's own option constructors, as a
	// caller would get it
	o := pf.NewStardardGameOptions()
	if c.ShortTable {
		o = pf.NewShortDeckGameOptions()
	}
	o.Ante, o.Blind.SB, o.Blind.BB, o.Blind.Dealer = c.Ante, c.SB, c.BB, c.DB
	o.Limit = c.Limit
	o.HoleCardsCount, o.RequiredHoleCardsCount = c.Hole, c.Req
	if c.BurnOpt > 0 {
		o.BurnCount = c.BurnOpt - 1
	}
	o.Deck = append([]string{}, c.Deck...)
	if c.ConstructorDeck {
		o.Deck = engineDeck(c.ShortDeck)
	}
	for i := 0; i < c.N; i++ {
		o.Players = append(o.Players, &pf.PlayerSetting{Bankroll: c.Bank[i], Positions: c.Positions(i)})
	}
	return o
}

func (c *Cfg) Short() string {
	return fmt.Sprintf("n=%d dealer=%d deadSB=%v/%v ante=%d sb=%d bb=%d db=%d limit=%s deck=%d hole=%d/%d bank=%v", c.N, c.Dealer, c.DeadSB, c.NoSBSeat, c.Ante, c.SB, c.BB, c.DB, c.Limit, len(c.Deck), c.Hole, c.Req, c.Bank)
}

func (c *Cfg) seatOf(pos string) int {
	for i := 0; i < c.N; i++ {
		for _, p := range c.Positions(i) {
			if p == pos {
				return i
			}
		}
	}
	return -1
}

func pickI64(rt *rapid.T, label string, xs ...int64) int64 {
	return xs[rapid.IntRange(0, len(xs)-1).Draw(rt, label)]
}

// Profile tunes the generator for the property being decided.
type Profile struct {
	MaxN        int
	Hostile     bool // amounts <= 0, below the wager, huge
	Probes      int  // negative probes per wait point (C04)
	ThemedDecks bool // tie / flush / straight inducing decks
	Showdown    bool // favour hands that reach a showdown
	Cuts        bool // C07: rebuild from JSON at drawn wait points
	NoCuts      bool // never restore from JSON (stages that need the live object)
	TryRaises   bool // C12: also request raises that the engine did not offer
	NoBBGames   bool // also generate button-blind / ante-only games (no seat holds "bb", SB = BB = 0)
	noPrelude   bool
	NoQueries   bool // no read-only calls between operations
	SmallStacks bool // C05/C12: tight stacks so that bounds bite
}

func GenCfg(rt *rapid.T, pr Profile) *Cfg {
	c := &Cfg{}
	maxN := pr.MaxN
	if maxN == 0 {
		maxN = 10
	}
	switch rapid.IntRange(0, 9).Draw(rt, "nClass") {
	case 0, 1:
		c.N = 2
	case 2, 3:
		c.N = 3
	case 4:
		c.N = maxN
	default:
		c.N = rapid.IntRange(2, maxN).Draw(rt, "n")
	}
	if pr.MaxN == 0 && rapid.IntRange(0, 29).Draw(rt, "crowd") == 0 {
		c.N = rapid.IntRange(11, 22).Draw(rt, "nCrowd") // "2 to 9+ seats": as many as the deck can serve
	}
	c.Hole, c.Req = 2, 0
	switch rapid.IntRange(0, 19).Draw(rt, "variant") {
	case 0, 1, 2, 3:
		c.Hole, c.Req = 4, 2
	case 4:
		// other hole-card / required-hole-card combinations that can make a
		// five-card hand on the flop (required = 0 or 2..hole; one required hole
		// card would need four board cards)
		hr := [][2]int{{2, 2}, {3, 0}, {3, 2}, {4, 0}, {4, 3}, {5, 2}, {3, 3}, {5, 0}}[rapid.IntRange(0, 7).Draw(rt, "otherVariant")]
		c.Hole, c.Req = hr[0], hr[1]
	}
	c.ShortDeck = rapid.IntRange(0, 3).Draw(rt, "shortDeck") == 0
	c.ShortTable = c.ShortDeck
	if rapid.IntRange(0, 9).Draw(rt, "crossTable") == 0 {
		c.ShortTable = !c.ShortTable
	}
	deckSize := 52
	if c.ShortDeck {
		deckSize = 36
	}
	for c.Hole*c.N+8 > deckSize { // a deck that cannot be dealt is not an accepted configuration
		c.N--
	}
	if rapid.Bool().Draw(rt, "dealer0") {
		c.Dealer = 0 // what table/ produces: the dealer is the first playable seat
	} else {
		c.Dealer = rapid.IntRange(0, c.N-1).Draw(rt, "dealer")
	}
	switch rapid.IntRange(0, 11).Draw(rt, "sbLayout") {
	case 0, 1:
		c.DeadSB = c.N > 2
	case 2:
		c.NoSBSeat = true
	}
	c.BB = pickI64(rt, "bb", 1, 2, 5, 10, 20, 100)
	// any sizes are accepted; the usual half big blind is the most frequent
	c.SB = pickI64(rt, "sb", 0, c.BB/2, c.BB/2, c.BB/2, c.BB/2, c.BB, 1, c.BB-1, c.BB/2+1, c.BB+1, 2*c.BB)
	c.DB = pickI64(rt, "db", 0, 0, 0, 0, 0, c.BB, 2*c.BB, 1)
	c.Ante = pickI64(rt, "ante", 0, 0, 0, 0, 1, c.BB/10, c.BB/2, c.BB, 3*c.BB)
	if pr.NoBBGames && rapid.IntRange(0, 19).Draw(rt, "noBB") == 0 {
		// the usual short-deck format: antes and a blind on the button only
		c.NoBBSeat, c.NoSBSeat, c.DeadSB = true, false, false
		unit := c.BB
		c.chipUnit = unit
		c.SB, c.BB = 0, 0
		c.DB = pickI64(rt, "buttonBlind", 0, unit, unit, 2*unit)
		c.Ante = pickI64(rt, "noBBAnte", unit, unit, unit/2+1, 3*unit, 0) // 0 with no button blind: a free hand, nobody is forced to put in a chip
	}
	c.Limit = "no"
	if rapid.IntRange(0, 4).Draw(rt, "limit") == 0 {
		c.Limit = "pot"
	}
	// stack regime of the table: boundary-heavy (most stacks at or next to a
	// forced amount), mixed, or playable (everybody can make several bets)
	regime := rapid.IntRange(0, 2).Draw(rt, "stackRegime")
	for i := 0; i < c.N; i++ {
		boundary := regime == 0 || (regime == 1 && rapid.Bool().Draw(rt, "boundaryStack"))
		if boundary {
			c.Bank = append(c.Bank, genBankroll(rt, c, pr))
		} else {
			hi := 60
			if pr.SmallStacks {
				hi = 14
			}
			c.Bank = append(c.Bank, maxI64(1, c.Ante+c.unit()*int64(rapid.IntRange(2, hi).Draw(rt, "bbs"))+int64(rapid.IntRange(0, 2).Draw(rt, "odd"))))
		}
	}
	c.Deck, c.Theme = GenDeck(rt, c, pr)
	if rapid.IntRange(0, 7).Draw(rt, "burnOption") == 0 {
		c.BurnOpt = rapid.IntRange(1, 4).Draw(rt, "burnCount")
		for c.Hole*c.N+8 > len(c.Deck) {
			c.N-- // (cannot happen: the option does not change what is dealt)
		}
	}
	if !pr.noPrelude && rapid.IntRange(0, 9).Draw(rt, "reuseGameObject") == 0 {
		sub := pr
		sub.noPrelude = true
		c.Prelude = GenCfg(rt, sub)
		c.PreludeSteps = rapid.IntRange(0, 60).Draw(rt, "preludeSteps")
	}
	return c
}

func genBankroll(rt *rapid.T, c *Cfg, pr Profile) int64 {
	jit := func() int64 { return int64(rapid.IntRange(-1, 1).Draw(rt, "jit")) }
	var b int64
	hi := 7
	if pr.SmallStacks {
		hi = 5 // no deep stacks
	}
	switch rapid.IntRange(0, hi).Draw(rt, "bankClass") {
	case 0:
		b = int64(rapid.IntRange(1, 3).Draw(rt, "tiny"))
	case 1:
		b = c.Ante + jit()
	case 2:
		b = c.Ante + c.BB + jit()
	case 3:
		b = c.Ante + c.SB + jit()
	case 4, 5:
		b = c.Ante + c.unit()*int64(rapid.IntRange(1, 10).Draw(rt, "bbs")) + int64(rapid.IntRange(0, 2).Draw(rt, "odd"))
	case 6:
		b = c.unit() * int64(rapid.IntRange(20, 200).Draw(rt, "deep"))
	case 7:
		b = c.Ante + c.DB + jit()
	}
	if rapid.IntRange(0, 49).Draw(rt, "highRoller") == 0 {
		// chips beyond 2^53 are still integers
		b = int64(1)<<53 + int64(rapid.IntRange(1, 999).Draw(rt, "highRollerOdd"))
	}
	if b <= 0 {
		b = 1
	}
	return b
}

// ---------------------------------------------------------------------------
// decks
// ---------------------------------------------------------------------------

// baseDeck: the 52 / 36 cards, listed by the harness itself (generation must not
// depend on what the engine's deck constructors return).
func baseDeck(short bool) []string { return cards.Deck(short) }

// engineDeck: what the engine's own constructor returns, as a table gets it.
func engineDeck(short bool) []string {
	if short {
		return pf.NewShortDeckCards()
	}
	return pf.NewStandardDeckCards()
}

// GenDeck returns a permutation of the configured deck, optionally themed by
// moving chosen cards to the positions that will be dealt.
func GenDeck(rt *rapid.T, c *Cfg, pr Profile) ([]string, string) {
	perm := rapid.Permutation(baseDeck(c.ShortDeck)).Draw(rt, "deck")
	theme := 0
	if pr.ThemedDecks {
		theme = rapid.IntRange(0, 6).Draw(rt, "theme")
	} else if rapid.IntRange(0, 3).Draw(rt, "themed") == 0 {
		theme = rapid.IntRange(1, 6).Draw(rt, "theme")
	}
	prefer := func(ok func(card string) bool) []string {
		var a, b []string
		for _, cd := range perm {
			if ok(cd) {
				a = append(a, cd)
			} else {
				b = append(b, cd)
			}
		}
		return append(a, b...)
	}
	rk := func(cd string) int { return indexOf(cards.RankChars, cd[1]) + 2 }
	switch theme {
	case 1: // flush-heavy: two suits first
		s1 := cards.SuitChars[rapid.IntRange(0, 3).Draw(rt, "suit1")]
		s2 := cards.SuitChars[rapid.IntRange(0, 3).Draw(rt, "suit2")]
		return prefer(func(cd string) bool { return cd[0] == s1 || cd[0] == s2 }), "flush-heavy"
	case 2: // straight-heavy: a window of adjacent ranks first
		lo := rapid.IntRange(2, 9).Draw(rt, "lo")
		if c.ShortDeck && lo < 6 {
			lo = 6
		}
		return prefer(func(cd string) bool { r := rk(cd); return (r >= lo && r <= lo+5) || (lo <= 3 && r == 14) }), "straight-heavy"
	case 3: // paired: four ranks first -> pairs, trips, full houses, quads
		r0 := rapid.IntRange(6, 11).Draw(rt, "r0")
		return prefer(func(cd string) bool { r := rk(cd); return r >= r0 && r <= r0+3 }), "paired"
	case 4: // board plays: the five board cards are a monster, everybody ties
		return boardPlays(rt, c, perm), "board-plays"
	case 5: // mirrored hole cards: neighbours hold the same ranks
		return mirrored(rt, c, perm), "mirrored"
	case 6: // omaha traps: four of one suit on the board
		s1 := cards.SuitChars[rapid.IntRange(0, 3).Draw(rt, "suit1")]
		return boardOfSuit(c, perm, s1), "four-suited-board"
	}
	return perm, "uniform"
}

func indexOf(s string, b byte) int {
	for i := 0; i < len(s); i++ {
		if s[i] == b {
			return i
		}
	}
	return -1
}

// boardSlots: deck positions of flop(3), turn, river for this configuration.
func boardSlots(c *Cfg) [5]int {
	b := c.N * c.Hole
	return [5]int{b + 1, b + 2, b + 3, b + 5, b + 7}
}

func place(deck []string, want map[int]string) []string {
	out := make([]string, len(deck))
	used := map[string]bool{}
	for pos, cd := range want {
		out[pos] = cd
		used[cd] = true
	}
	j := 0
	for _, cd := range deck {
		if used[cd] {
			continue
		}
		for out[j] != "" {
			j++
		}
		out[j] = cd
	}
	return out
}

func boardPlays(rt *rapid.T, c *Cfg, perm []string) []string {
	s := []byte{cards.SuitChars[0], cards.SuitChars[1], cards.SuitChars[2], cards.SuitChars[3]}
	s = rapid.Permutation(s).Draw(rt, "suitMap")
	mk := func(si int, r byte) string { return string([]byte{s[si], r}) }
	var board []string
	switch rapid.IntRange(0, 3).Draw(rt, "monster") {
	case 0: // royal flush
		board = []string{mk(0, 'T'), mk(0, 'J'), mk(0, 'Q'), mk(0, 'K'), mk(0, 'A')}
	case 1: // broadway, rainbow
		board = []string{mk(0, 'T'), mk(1, 'J'), mk(2, 'Q'), mk(3, 'K'), mk(0, 'A')}
	case 2: // quads with the ace kicker
		board = []string{mk(0, '9'), mk(1, '9'), mk(2, '9'), mk(3, '9'), mk(0, 'A')}
	default: // aces full of kings
		board = []string{mk(0, 'A'), mk(1, 'A'), mk(2, 'A'), mk(0, 'K'), mk(1, 'K')}
	}
	board = rapid.Permutation(board).Draw(rt, "boardOrder")
	want := map[int]string{}
	for i, pos := range boardSlots(c) {
		want[pos] = board[i]
	}
	return place(perm, want)
}

func mirrored(rt *rapid.T, c *Cfg, perm []string) []string {
	// players 2k and 2k+1 get the same ranks in different suits
	want := map[int]string{}
	usedRank := map[byte]bool{}
	ranks := []byte(cards.RankChars)
	if c.ShortDeck {
		ranks = ranks[4:]
	}
	order := rapid.Permutation(ranks).Draw(rt, "rankOrder")
	ri := 0
	for k := 0; 2*k+1 < c.N && ri+c.Hole <= len(order); k++ {
		for h := 0; h < c.Hole; h++ {
			r := order[ri]
			ri++
			usedRank[r] = true
			want[(2*k)*c.Hole+h] = string([]byte{cards.SuitChars[(h)%4], r})
			want[(2*k+1)*c.Hole+h] = string([]byte{cards.SuitChars[(h+2)%4], r})
		}
	}
	return place(perm, want)
}

func boardOfSuit(c *Cfg, perm []string, suit byte) []string {
	want := map[int]string{}
	slots := boardSlots(c)
	i := 0
	for _, cd := range perm {
		if cd[0] == suit && i < 4 {
			want[slots[i]] = cd
			i++
		}
	}
	return place(perm, want)
}
