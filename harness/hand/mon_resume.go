package hand

import (
	"fmt"

	pf "github.com/weedbox/pokerface"
	"github.com/weedbox/pokerface/table"

	"verif/vlib"
)

// ---------------------------------------------------------------------------
// C07 — a hand can be resumed from its serialized state at any wait point
//
// Replicas advanced in lockstep on the same operations:
//   A  the in-memory game driven by the harness (what the other monitors see)
//   B  every operation through table.NativeBackend (JSON in, JSON out)
//   C  an in-memory game that is rebuilt from its own JSON at the cut points
//   D  a second in-memory game started independently (determinism)
// ---------------------------------------------------------------------------

type resumeMon struct {
	nb   *table.NativeBackend
	b    *pf.GameState
	c    pf.Game
	d    pf.Game
	cuts int
	ops  int
	hops int
}

func (m *resumeMon) Begin(h *Hand, gs *pf.GameState) *vlib.Violation {
	m.nb = table.NewNativeBackend()
	m.b = JSONClone(gs)
	m.c = pf.NewPokerFace().NewGameFromState(JSONClone(gs))
	d := pf.NewPokerFace().NewGame(h.Cfg.Options())
	if err := d.Start(); err != nil {
		return vlib.V("C07", "determinism/start", "second Start() of the same configuration failed: %v", err)
	}
	copy(d.GetState().Meta.Deck, h.Cfg.Deck)
	d.GetState().GameID = gs.GameID
	d.GetState().CreatedAt = gs.CreatedAt
	m.d = d
	if Norm(d.GetState()) != Norm(gs) {
		return vlib.V("C07", "determinism/start", "two games started from the same configuration and deck differ:\n%s\n%s", Norm(d.GetState()), Norm(gs))
	}
	return nil
}

func (m *resumeMon) End(h *Hand, gs *pf.GameState) *vlib.Violation {
	h.Facts["compared>=10"] = m.ops >= 10
	h.Facts["settled-after-json-hop"] = gs.Result != nil && m.ops > 0
	h.Facts["cut"] = m.cuts > 0
	return nil
}

func backendApply(nb *table.NativeBackend, gs *pf.GameState, op Op) (out *pf.GameState, err error, pan interface{}) {
	defer func() {
		if e := recover(); e != nil {
			pan = e
		}
	}()
	k, a := op.K, op.A
	if k == "probe" {
		switch a {
		case "ready", "ante", "blinds", "next":
			k = a
		default:
			k = "act"
		}
	}
	switch k {
	case "ready":
		out, err = nb.ReadyForAll(gs)
	case "ante":
		out, err = nb.PayAnte(gs)
	case "blinds":
		out, err = nb.PayBlinds(gs)
	case "next":
		out, err = nb.Next(gs)
	case "act":
		switch a {
		case "pass":
			out, err = nb.Pass(gs)
		case "pay":
			out, err = nb.Pay(gs, op.X)
		case "fold":
			out, err = nb.Fold(gs)
		case "check":
			out, err = nb.Check(gs)
		case "call":
			out, err = nb.Call(gs)
		case "allin":
			out, err = nb.Allin(gs)
		case "bet":
			out, err = nb.Bet(gs, op.X)
		case "raise":
			out, err = nb.Raise(gs, op.X)
		default:
			err = fmt.Errorf("harness: unknown action %q", a)
		}
	default:
		err = fmt.Errorf("harness: unknown op %q", k)
	}
	return
}

func (m *resumeMon) Observe(h *Hand, t *Trans) *vlib.Violation {
	if t.Op.K == "probe" && t.Op.Seat >= 0 {
		return nil // the backend has no per-seat entry points
	}
	op := t.Op
	a := t.PostJSON()
	m.ops++
	// C: rebuilt from its own JSON at the cut points
	if h.CutNow {
		h.CutNow = false
		m.cuts++
		m.c = pf.NewPokerFace().NewGameFromState(JSONClone(m.c.GetState()))
	}
	errC, panC := safeApply(m.c, op)
	if panC != nil {
		return vlib.V("C07", "rebuilt-game-panics/"+opSig(op, t.Pre), "%s on the game rebuilt from JSON panicked: %v (the original returned %v)", op, panC, t.Err)
	}
	if (errC == nil) != (t.Err == nil) {
		return vlib.V("C07", "rebuilt-game-result-differs/"+opSig(op, t.Pre), "%s: original returned %v, game rebuilt from JSON returned %v", op, t.Err, errC)
	}
	if c := Norm(m.c.GetState()); c != a {
		return vlib.V("C07", "rebuilt-game-diverges/"+opSig(op, t.Pre), "after %s (%d rebuilds so far)\n original: %s\n rebuilt : %s", op, m.cuts, a, c)
	}
	// B: through the stateless backend
	in := Norm(m.b)
	outB, errB, panB := backendApply(m.nb, m.b, op)
	if panB != nil {
		return vlib.V("C07", "backend-panics/"+opSig(op, t.Pre), "%s through NativeBackend panicked: %v (the original returned %v)", op, panB, t.Err)
	}
	if Norm(m.b) != in {
		return vlib.V("C07", "backend-modifies-input/"+opSig(op, t.Pre), "NativeBackend modified the state handed to it during %s", op)
	}
	if (errB == nil) != (t.Err == nil) {
		return vlib.V("C07", "backend-result-differs/"+opSig(op, t.Pre), "%s: original returned %v, NativeBackend returned %v", op, t.Err, errB)
	}
	if errB == nil {
		if outB == nil {
			return vlib.V("C07", "backend-no-state", "%s: NativeBackend returned neither state nor error", op)
		}
		m.b = outB
		m.hops++
	}
	if b := Norm(m.b); b != a {
		return vlib.V("C07", "backend-diverges/"+opSig(op, t.Pre), "after %s\n original: %s\n backend : %s", op, a, b)
	}
	// D: determinism
	errD, panD := safeApply(m.d, op)
	if panD != nil || (errD == nil) != (t.Err == nil) {
		return vlib.V("C07", "determinism/result", "%s: first game returned %v, second game %v (panic %v)", op, t.Err, errD, panD)
	}
	if d := Norm(m.d.GetState()); d != a {
		return vlib.V("C07", "determinism/state", "the same deck and operations gave different states after %s\n first : %s\n second: %s", op, a, d)
	}
	h.St.Count("states_compared", 3)
	return nil
}
