// Package pots: reference model of layered side pots and of the showdown
// settlement, written from the statements of C02 / C16 (not from the code
// under test), plus the oracles that compare the real packages with it.
package pots

import (
	"fmt"
	"sort"

	"github.com/weedbox/pokerface/pot"
	"github.com/weedbox/pokerface/settlement"

	"verif/vlib"
)

// Vec is one input of the quantifier: per-player contribution, fold flag and
// hand strength, and the order in which the players are handed to the code.
type Vec struct {
	C     []int64 `json:"contributions"`
	F     []bool  `json:"folded"`
	S     []int   `json:"strength"`
	Order []int   `json:"insertion_order,omitempty"`
	// LevelRot > 0: the contributor lists of the levels handed to the settlement are turned by that many places
	LevelRot int `json:"level_contributors_turned,omitempty"`
	// Twice: the pots are asked for twice and the second answer is the one that is judged
	Twice bool `json:"pots_asked_twice,omitempty"`
}

func (v Vec) order() []int {
	if len(v.Order) == len(v.C) {
		return v.Order
	}
	o := make([]int, len(v.C))
	for i := range o {
		o[i] = i
	}
	return o
}

// RefPot is a pot of the reference model.
type RefPot struct {
	Level int64
	Prev  int64
	Total int64
	Elig  []int // non-folded players who reached Level
}

// RefPots: layers between consecutive distinct contribution values; a pot is a
// maximal run of layers with the same set of non-folded payers.
func RefPots(v Vec) []RefPot {
	vals := map[int64]bool{}
	for _, c := range v.C {
		if c > 0 {
			vals[c] = true
		}
	}
	ls := make([]int64, 0, len(vals))
	for l := range vals {
		ls = append(ls, l)
	}
	sort.Slice(ls, func(i, j int) bool { return ls[i] < ls[j] })
	var out []RefPot
	prev := int64(0)
	for _, l := range ls {
		lay := RefPot{Level: l, Prev: prev}
		for i, c := range v.C {
			if c >= l {
				lay.Total += l - prev
				if !v.F[i] {
					lay.Elig = append(lay.Elig, i)
				}
			}
		}
		if n := len(out); n > 0 && sameSet(out[n-1].Elig, lay.Elig) {
			out[n-1].Level = l
			out[n-1].Total += lay.Total
		} else {
			out = append(out, lay)
		}
		prev = l
	}
	return out
}

func sameSet(a, b []int) bool {
	if len(a) != len(b) {
		return false
	}
	for i := range a {
		if a[i] != b[i] {
			return false
		}
	}
	return true
}

// RefSettle returns for every player the interval the net change must lie in.
// weak[i] is set for folded players when some pot has no eligible player at all
// (a top layer paid only by folded players: unreachable in play, see DESIGN §5.5).
func RefSettle(v Vec) (lo, hi []int64, unclaimed bool, pots []RefPot, winners [][]int) {
	n := len(v.C)
	lo, hi = make([]int64, n), make([]int64, n)
	for i, c := range v.C {
		lo[i], hi[i] = -c, -c
	}
	pots = RefPots(v)
	for _, p := range pots {
		if len(p.Elig) == 0 {
			unclaimed = true
			winners = append(winners, nil)
			continue
		}
		best := -1
		for _, i := range p.Elig {
			if v.S[i] > best {
				best = v.S[i]
			}
		}
		var w []int
		for _, i := range p.Elig {
			if v.S[i] == best {
				w = append(w, i)
			}
		}
		k := int64(len(w))
		for _, i := range w {
			lo[i] += p.Total / k
			hi[i] += (p.Total + k - 1) / k
		}
		winners = append(winners, w)
	}
	return
}

// Run feeds the vector to the real pot and settlement packages exactly the way
// the engine wires them (pot.go: updatePots, settlement.go: CalculateGameResults).
func Run(v Vec) (pots []*pot.Pot, res *settlement.Result, perr interface{}) {
	defer func() {
		if e := recover(); e != nil {
			perr = e
		}
	}()
	ll := pot.NewLevelList()
	for _, i := range v.order() {
		ll.AddContributor(v.C[i], i, v.F[i])
	}
	pots = ll.GetPots()
	if v.Twice {
		pots = ll.GetPots() // asking again must give the same pots
	}
	res = settlement.NewResult()
	for j, p := range pots {
		levels := p.Levels
		if v.LevelRot > 0 {
			// the order in which a level lists its contributors carries no meaning
			// (the level list itself fills it in map order): hand the settlement
			// copies with the lists turned
			levels = make([]*pot.Level, len(p.Levels))
			for k, l := range p.Levels {
				c := *l
				n := len(l.Contributors)
				c.Contributors = make([]int, n)
				for i := range l.Contributors {
					c.Contributors[(i+v.LevelRot+j+k)%n] = l.Contributors[i]
				}
				levels[k] = &c
			}
		}
		res.AddPot(p.Total, levels)
	}
	for i := range v.C {
		res.AddPlayer(i, v.C[i]+1000000) // the bankroll covers what was put in
		if v.F[i] {
			res.UpdateScore(i, 0)
		} else {
			res.UpdateScore(i, v.S[i])
		}
	}
	res.Calculate()
	return pots, res, nil
}

// CheckPots is the C16 oracle over published pots.
func CheckPots(v Vec, pots []*pot.Pot) *vlib.Violation {
	var sumC, sum int64
	for _, c := range v.C {
		sumC += c
	}
	prev := int64(0)
	var prevElig map[int]bool
	for j, p := range pots {
		if j > 0 && p.Level <= prev {
			return vlib.V("C16", "levels-not-increasing", "%s: pot %d has level %d after level %d", v.Short(), j, p.Level, prev)
		}
		var tot int64
		elig := map[int]bool{}
		for i, c := range v.C {
			a, b := c, c
			if a > p.Level {
				a = p.Level
			}
			if b > prev {
				b = prev
			}
			if a > b {
				tot += a - b
			}
			if !v.F[i] && c >= p.Level {
				elig[i] = true
			}
		}
		if tot != p.Total {
			return vlib.V("C16", "total", "%s: pot %d (levels %d..%d) has total %d, players put in %d there", v.Short(), j, prev, p.Level, p.Total, tot)
		}
		if p.Wager != p.Level-prev {
			return vlib.V("C16", "wager-field", "%s: pot %d wager %d, level step is %d", v.Short(), j, p.Wager, p.Level-prev)
		}
		for i, w := range p.Contributors {
			if i < 0 || i >= len(v.C) {
				return vlib.V("C16", "unknown-player", "%s: pot %d lists player %d", v.Short(), j, i)
			}
			if v.F[i] {
				// folded entries are written back on purpose (DESIGN §5.4); but no
				// chip may be shown in a pot that starts above what its owner paid
				if prev > v.C[i] {
					return vlib.V("C16", "folded-listed-above-contribution", "%s: pot %d (levels %d..%d) lists folded player %d, who put in only %d", v.Short(), j, prev, p.Level, i, v.C[i])
				}
				continue
			}
			if !elig[i] {
				return vlib.V("C16", "not-eligible-listed", "%s: pot %d (level %d) lists player %d who put in %d", v.Short(), j, p.Level, i, v.C[i])
			}
			if w != p.Level-prev {
				return vlib.V("C16", "per-pot-amount", "%s: pot %d lists player %d with %d, per-pot amount is %d", v.Short(), j, i, w, p.Level-prev)
			}
		}
		for i := range elig {
			if _, ok := p.Contributors[i]; !ok {
				return vlib.V("C16", "eligible-missing", "%s: pot %d (level %d) does not list player %d who put in %d and did not fold", v.Short(), j, p.Level, i, v.C[i])
			}
		}
		if j > 0 {
			sub := len(elig) < len(prevElig)
			for i := range elig {
				if !prevElig[i] {
					sub = false
				}
			}
			if !sub {
				return vlib.V("C16", "not-nested", "%s: eligible set of pot %d does not strictly shrink", v.Short(), j)
			}
		}
		prevElig = elig
		sum += p.Total
		prev = p.Level
	}
	if sum != sumC {
		return vlib.V("C16", "sum", "%s: pots add up to %d, players put in %d", v.Short(), sum, sumC)
	}
	return nil
}

// CheckSettle is the C02 oracle over the net changes.
func CheckSettle(v Vec, changed map[int]int64) *vlib.Violation {
	lo, hi, unclaimed, _, winners := RefSettle(v)
	var z int64
	for i := range v.C {
		ch, ok := changed[i]
		if !ok {
			return vlib.V("C02", "player-missing", "%s: no result for player %d", v.Short(), i)
		}
		z += ch
		if unclaimed && v.F[i] {
			if ch > 0 || ch < -v.C[i] {
				return vlib.V("C02", "folded-wins", "%s: folded player %d changes by %d", v.Short(), i, ch)
			}
			continue
		}
		if v.F[i] && ch != -v.C[i] {
			return vlib.V("C02", "folded-wins", "%s: folded player %d put in %d and changes by %d", v.Short(), i, v.C[i], ch)
		}
		if ch < lo[i] || ch > hi[i] {
			sig := "amount"
			switch {
			case lo[i] == hi[i]:
				sig = "amount/exact"
			default:
				sig = "amount/split-uneven"
			}
			return vlib.V("C02", sig, "%s: player %d changes by %d, must be within [%d,%d] (winners per pot %v)", v.Short(), i, ch, lo[i], hi[i], winners)
		}
	}
	if z != 0 {
		return vlib.V("C02", "zero-sum", "%s: changes add up to %d", v.Short(), z)
	}
	return nil
}

func (v Vec) Short() string {
	s := "["
	for i := range v.C {
		if i > 0 {
			s += " "
		}
		s += fmt.Sprint(v.C[i])
		if v.F[i] {
			s += "f"
		} else {
			s += fmt.Sprintf("/s%d", v.S[i])
		}
	}
	return s + "]"
}

// Check runs the vector through the real code and both oracles; returns the
// violation of prop ("C02" or "C16"), if any.
func Check(v Vec, prop string) *vlib.Violation {
	pots, res, perr := Run(v)
	if perr != nil {
		return vlib.V(prop, "panic", "%s: %v", v.Short(), perr)
	}
	if prop == "C16" {
		return CheckPots(v, pots)
	}
	ch := map[int]int64{}
	for _, pr := range res.Players {
		ch[pr.Idx] += pr.Changed
		if pr.Idx < 0 || pr.Idx >= len(v.C) {
			return vlib.V("C02", "player-missing", "%s: result for unknown player %d", v.Short(), pr.Idx)
		}
		if bank := v.C[pr.Idx] + 1000000; pr.Final != bank+pr.Changed {
			return vlib.V("C02", "final", "%s: player %d final %d, bankroll+change %d", v.Short(), pr.Idx, pr.Final, bank+pr.Changed)
		}
	}
	return CheckSettle(v, ch)
}

// Classify for evidence.
func Classify(v Vec) (npots int, tie bool, foldedPartial bool, zero bool, multiLayerTie bool) {
	_, _, _, pots, winners := RefSettle(v)
	npots = len(pots)
	var maxC int64
	for _, c := range v.C {
		if c > maxC {
			maxC = c
		}
		if c == 0 {
			zero = true
		}
	}
	for i, c := range v.C {
		if v.F[i] && c > 0 && c < maxC {
			foldedPartial = true
		}
	}
	for j, w := range winners {
		if len(w) >= 2 {
			tie = true
			// layers inside pot j
			layers := 0
			for _, c := range uniq(v.C) {
				if c > pots[j].Prev && c <= pots[j].Level {
					layers++
				}
			}
			if layers >= 2 {
				multiLayerTie = true
			}
		}
	}
	return
}

func uniq(xs []int64) []int64 {
	m := map[int64]bool{}
	var out []int64
	for _, x := range xs {
		if !m[x] {
			m[x] = true
			out = append(out, x)
		}
	}
	return out
}
