package pots

import (
	"encoding/json"
	"fmt"
	"os"
	"runtime"
	"sync"
	"testing"

	"pgregory.net/rapid"

	"verif/vlib"
)

// the last three are beyond 2^53: an implementation that takes a detour through
// float64 loses chips there (ten players of 2^57 still fit an int64)
var contribSet = []int64{0, 1, 2, 3, 5, 10, 11, 20, 25, 100, 1000000, 1<<53 + 1, 1<<54 + 3, 1<<57 + 5}

func genVec(rt *rapid.T) Vec {
	n := rapid.IntRange(2, 10).Draw(rt, "n")
	// "all numbers of players": now and then a crowd (player indexes beyond the
	// width of a 16-, 32- or 64-bit set)
	switch rapid.IntRange(0, 39).Draw(rt, "crowd") {
	case 0, 1, 2:
		n = rapid.IntRange(11, 24).Draw(rt, "nCrowd")
	case 3:
		n = rapid.IntRange(25, 70).Draw(rt, "nBigCrowd")
	}
	v := Vec{}
	// a small pool of values per case makes equal contributions (merged pots,
	// multi-layer pots) frequent
	pool := rapid.IntRange(1, 4).Draw(rt, "pool")
	vals := make([]int64, pool)
	for i := range vals {
		if rapid.IntRange(0, 4).Draw(rt, "raw") == 0 {
			vals[i] = int64(rapid.IntRange(0, 40).Draw(rt, "val"))
		} else {
			vals[i] = contribSet[rapid.IntRange(0, len(contribSet)-1).Draw(rt, "valIdx")]
		}
	}
	if n > 10 {
		for i := range vals {
			if vals[i] > 1000000 { // the sum must stay inside an int64
				vals[i] = 1000000 + int64(i)
			}
		}
	}
	nstr := rapid.IntRange(1, 3).Draw(rt, "strengths")
	for i := 0; i < n; i++ {
		v.C = append(v.C, vals[rapid.IntRange(0, pool-1).Draw(rt, "c")])
		v.F = append(v.F, rapid.IntRange(0, 2).Draw(rt, "fold") == 0)
		v.S = append(v.S, rapid.IntRange(1, nstr).Draw(rt, "s"))
	}
	idx := make([]int, n)
	for i := range idx {
		idx[i] = i
	}
	v.Order = rapid.Permutation(idx).Draw(rt, "order")
	v.Twice = rapid.IntRange(0, 3).Draw(rt, "potsTwice") == 0
	if rapid.Bool().Draw(rt, "turnLevelLists") {
		v.LevelRot = rapid.IntRange(1, n).Draw(rt, "levelRot")
	}
	return v
}

func record(st *vlib.Stats, v Vec, prop string) {
	st.Evaluations++
	npots, tie, fp, zero, mlt := Classify(v)
	st.ClassIf(npots >= 2, "pots>=2")
	st.ClassIf(npots >= 3, "pots>=3")
	st.ClassIf(tie, "tie")
	st.ClassIf(fp, "folded-partial-contributor")
	st.ClassIf(zero, "zero-contribution")
	st.ClassIf(mlt, "tie-in-multi-layer-pot")
	var nontrivial bool
	if prop == "C16" {
		d := map[int64]bool{}
		for _, c := range v.C {
			if c > 0 {
				d[c] = true
			}
		}
		nontrivial = (len(d) >= 2 && fp) || zero
	} else {
		nontrivial = npots >= 2 || tie || fp
	}
	if nontrivial {
		st.NonTrivial(vlib.Hash(v.C, v.F, v.S))
		st.Sample(v)
	}
}

// TestVecRapid: G-VEC given directly to pot.LevelList + settlement.Result.
func TestVecRapid(t *testing.T) {
	prop := vlib.Prop()
	st := vlib.NewStats("vectors-rapid")
	vlib.RunRapid(t, "pots", "vec", st, func(rt *rapid.T) vlib.Outcome {
		v := genVec(rt)
		record(st, v, prop)
		return vlib.Outcome{Case: v, Violation: Check(v, prop)}
	})
}

// TestVecGrid: every vector with n <= 5 players over contributions {0,1,2,3},
// fold flag, strengths {1,2} (folded players carry no strength).
func TestVecGrid(t *testing.T) {
	prop := vlib.Prop()
	st := vlib.NewStats("vectors-grid")
	st.Exhaustive = true
	defer func() { st.Write(os.Getenv("VERIF_OUT")) }()
	maxN := 5
	type opt struct {
		c int64
		f bool
		s int
	}
	var opts []opt
	for c := int64(0); c <= 3; c++ {
		opts = append(opts, opt{c, true, 1}, opt{c, false, 1}, opt{c, false, 2})
	}
	var mu sync.Mutex
	var firstBad *Vec
	var firstV *vlib.Violation
	var firstKey int64 = -1
	var wg sync.WaitGroup
	workers := runtime.NumCPU()
	for n := 2; n <= maxN; n++ {
		total := 1
		for i := 0; i < n; i++ {
			total *= len(opts)
		}
		chunk := (total + workers - 1) / workers
		for w := 0; w < workers; w++ {
			lo, hi := w*chunk, (w+1)*chunk
			if hi > total {
				hi = total
			}
			if lo >= hi {
				continue
			}
			wg.Add(1)
			go func(n, lo, hi int) {
				defer wg.Done()
				local := vlib.NewStats("w")
				for code := lo; code < hi; code++ {
					v := Vec{}
					x := code
					for i := 0; i < n; i++ {
						o := opts[x%len(opts)]
						x /= len(opts)
						v.C = append(v.C, o.c)
						v.F = append(v.F, o.f)
						v.S = append(v.S, o.s)
					}
					record(local, v, prop)
					if viol := Check(v, prop); viol != nil {
						mu.Lock()
						key := int64(n)<<32 | int64(code)
						if firstKey < 0 || key < firstKey {
							firstKey, firstBad, firstV = key, &v, viol
						}
						mu.Unlock()
						break
					}
				}
				mu.Lock()
				st.Evaluations += local.Evaluations
				for k, c := range local.Classes {
					st.Classes[k] += c
				}
				st.MergeHashes(local)
				for _, s := range local.Samples {
					if len(st.Samples) < 3 {
						st.Samples = append(st.Samples, s)
					}
				}
				mu.Unlock()
			}(n, lo, hi)
		}
		wg.Wait()
		if firstV != nil {
			break
		}
	}
	if firstV != nil {
		st.Violations++
		b, _ := json.Marshal(firstBad)
		path := vlib.WriteReplay(&vlib.Replay{Property: prop, Harness: "pots", Kind: "vec", Case: b, Violation: firstV})
		fmt.Printf("HARNESS-VIOLATION property=%s signature=%q replay=%s\n   %s\n", prop, firstV.Signature, path, firstV.Detail)
		t.Fail()
	}
}

// decodeVec turns fuzz bytes into a vector (data-provider layer).
func decodeVec(data []byte) (Vec, bool) {
	if len(data) < 5 {
		return Vec{}, false
	}
	n := 2 + int(data[0])%9
	v := Vec{}
	p := 1
	for i := 0; i < n; i++ {
		if p+1 >= len(data) {
			break
		}
		b0, b1 := data[p], data[p+1]
		p += 2
		var c int64
		if b0&0x80 != 0 {
			c = int64(b0&0x7f) * int64(b1>>2+1) // arbitrary values up to ~8k
		} else {
			c = contribSet[int(b0&0x7f)%len(contribSet)]
		}
		v.C = append(v.C, c)
		v.F = append(v.F, b1&1 == 1)
		v.S = append(v.S, 1+int(b1>>1&1)+int(b1>>7&1))
	}
	if len(v.C) < 2 {
		return Vec{}, false
	}
	// insertion order: rotate by the remaining byte
	rot := 0
	if p < len(data) {
		rot = int(data[p]) % len(v.C)
	}
	for i := range v.C {
		v.Order = append(v.Order, (i+rot)%len(v.C))
	}
	return v, true
}

func FuzzVec(f *testing.F) {
	prop := vlib.Prop()
	if prop == "" {
		prop = "C02"
	}
	f.Add([]byte{3, 1, 1, 5, 0, 2, 1, 6, 0, 7, 0, 0})
	f.Add([]byte{0, 5, 0, 5, 0, 1})
	f.Add([]byte{7, 0x85, 0x10, 0x85, 0x10, 0x83, 0x11, 0x90, 0x20, 0x83, 0x41, 0x81, 0x00, 0xff, 0xff, 2})
	f.Add([]byte{4, 1, 1, 5, 0, 2, 1, 6, 0, 7, 0, 3})
	f.Fuzz(func(t *testing.T, data []byte) {
		v, ok := decodeVec(data)
		if !ok {
			return
		}
		if viol := Check(v, prop); viol != nil {
			b, _ := json.Marshal(v)
			vlib.WriteReplay(&vlib.Replay{Property: prop, Harness: "pots", Kind: "vec", Case: b, Violation: viol})
			t.Fatalf("%s", viol.Error())
		}
	})
}

func TestReplay(t *testing.T) {
	path := os.Getenv("VERIF_REPLAY")
	if path == "" {
		t.Skip("no VERIF_REPLAY")
	}
	r, err := vlib.ReadReplay(path)
	if err != nil {
		t.Fatalf("replay file: %v", err)
	}
	var v Vec
	if err := json.Unmarshal(r.Case, &v); err != nil {
		t.Fatalf("case: %v", err)
	}
	vlib.ReportReplay(t, r, Check(v, r.Property))
}
