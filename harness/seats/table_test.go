package seats

import (
	"encoding/json"
	"fmt"
	"sort"
	"testing"
	"time"

	"github.com/weedbox/pokerface/table"
	"pgregory.net/rapid"

	"verif/vlib"
)

// ---------------------------------------------------------------------------
// C08 at the table: table/internal.go copies the seat manager's decision into
// the players' position labels (what the engine is then started with). The
// table is driven without its loop through the verif hook.
// ---------------------------------------------------------------------------

type tableOp struct {
	K string `json:"k"` // join | sitin | sitout | leave | hand
	S int    `json:"s"`
}

type tableCase struct {
	Max int       `json:"max"`
	Ops []tableOp `json:"ops"`
}

func runTableCase(c *tableCase, st *vlib.Stats) (v *vlib.Violation, hands int) {
	vlib.StartWatchdog(90 * time.Second)
	vlib.Busy()
	defer vlib.Idle()
	defer func() {
		if e := recover(); e != nil {
			v = nil // a crash is C18's business
		}
	}()
	opts := table.NewOptions()
	opts.MaxSeats = c.Max
	t := table.NewTable(opts)
	occ := make([]string, c.Max)
	res := make([]bool, c.Max)
	trace := ""
	pid := 0
	for _, op := range c.Ops {
		trace += fmt.Sprintf(" %s(%d)", op.K, op.S)
		switch op.K {
		case "join":
			if occ[op.S] != "" {
				continue // table.Join prints a line for every refused join; the refusal itself is C18's
			}
			pid++
			id := fmt.Sprintf("p%d", pid)
			if _, err := t.Join(op.S, &table.PlayerInfo{ID: id, Bankroll: 1000}); err == nil {
				occ[op.S], res[op.S] = id, true
			}
		case "sitin":
			t.Activate(op.S)
			res[op.S] = false
		case "sitout":
			t.Reserve(op.S)
			res[op.S] = true
		case "leave":
			if t.Leave(op.S) == nil {
				occ[op.S], res[op.S] = "", false
			}
		case "hand":
			if err := table.VerifSetupPosition(t); err != nil {
				trace += "=refused"
				continue
			}
			hands++
			sm := table.VerifSeatManager(t)
			P := map[int]bool{}
			for _, s := range sm.GetSeats() {
				if occ[s.ID] != "" && !res[s.ID] && s.IsActive {
					P[s.ID] = true
				}
			}
			d := seatID(sm.Dealer())
			if len(P) < 2 || !P[d] {
				continue // C08's first sentence on the seat manager itself is checked elsewhere
			}
			wantSB, wantBB := d, firstAfter(P, d, c.Max)
			if len(P) >= 3 {
				wantSB = firstAfter(P, d, c.Max)
				wantBB = firstAfter(P, wantSB, c.Max)
			}
			state := t.GetState()
			for seat := 0; seat < c.Max; seat++ {
				p := state.Players[seat]
				if occ[seat] == "" {
					continue
				}
				if p == nil {
					return vlib.V("C08", "table/player-missing", "max=%d%s: seat %d (%s) has no player record at the table", c.Max, trace, seat, occ[seat]), hands
				}
				want := []string{}
				if P[seat] {
					if seat == d {
						want = append(want, "dealer")
					}
					if seat == wantSB {
						want = append(want, "sb")
					}
					if seat == wantBB {
						want = append(want, "bb")
					}
				}
				got := append([]string{}, p.Positions...)
				sort.Strings(got)
				sort.Strings(want)
				if fmt.Sprint(got) != fmt.Sprint(want) {
					return vlib.V("C08", "table/position-labels", "max=%d%s: seat %d is labelled %v, expected %v (dealer %d, small blind %d, big blind %d, playable %v)", c.Max, trace, seat, p.Positions, want, d, wantSB, wantBB, keys(P)), hands
				}
				if p.Playable != P[seat] {
					return vlib.V("C08", "table/playable-flag", "max=%d%s: seat %d playable=%v at the table, %v by the seats (playable %v)", c.Max, trace, seat, p.Playable, P[seat], keys(P)), hands
				}
			}
			st.ClassIf(len(P) == 2, "table-hand:heads-up")
			st.ClassIf(len(P) >= 3, "table-hand:3+")
		}
	}
	return nil, hands
}

func TestTablePositions(t *testing.T) {
	st := vlib.NewStats("table-positions")
	vlib.RunRapid(t, "seats", "table", st, func(rt *rapid.T) vlib.Outcome {
		c := &tableCase{Max: rapid.IntRange(2, 9).Draw(rt, "max")}
		n := rapid.IntRange(3, 40).Draw(rt, "length")
		for i := 0; i < n; i++ {
			k := rapid.SampledFrom([]string{"join", "join", "sitin", "sitin", "sitin", "sitout", "leave", "hand", "hand", "hand"}).Draw(rt, "op")
			c.Ops = append(c.Ops, tableOp{K: k, S: rapid.IntRange(0, c.Max-1).Draw(rt, "seat")})
		}
		v, hands := runTableCase(c, st)
		st.Evaluations++
		if hands >= 2 {
			st.NonTrivial(vlib.Hash(c))
			st.Sample(c)
		}
		return vlib.Outcome{Case: c, Violation: v}
	})
}

func replayTable(raw json.RawMessage) *vlib.Violation {
	var c tableCase
	json.Unmarshal(raw, &c)
	v, _ := runTableCase(&c, vlib.NewStats("replay"))
	return v
}
