package seats

import (
	"encoding/json"
	"fmt"
	"os"
	"sync"
	"testing"
	"time"

	"github.com/weedbox/pokerface/match"
	sm "github.com/weedbox/pokerface/seat_manager"
	"github.com/weedbox/pokerface/table"
	"pgregory.net/rapid"

	"verif/vlib"
)

// ---------------------------------------------------------------------------
// C18 where the seat manager is used: table/table.go and match/table.go keep
// their own record of who sits where next to the seat manager. The clauses of
// the statement (one player per seat, a player seated once, refusals, leaving
// frees exactly that seat, seated = joins - leaves, also for racing joins, no
// crash) are checked on what these two tables publish.
// ---------------------------------------------------------------------------

type glueOp struct {
	K string `json:"k"` // join | joinany | leave | sitin | sitout
	S int    `json:"s"`
}

type glueCase struct {
	Layer string   `json:"layer"` // table | match
	Max   int      `json:"max"`
	Ops   []glueOp `json:"ops"`
	// race part: after the history, these joins are issued concurrently
	Race []int `json:"race,omitempty"`
}

// glue is what the two tables have in common for this check.
type glue interface {
	join(seat int, id string) (int, error)
	leave(seat int) error // only called with an in-range seat for layers that demand it
	// leaveBatch reports several in-range seats as left in one go; seats that are
	// empty already (a report delivered twice) are among them
	leaveBatch(seats []int)
	sitin(seat int)
	sitout(seat int)
	// published occupancy: player id per seat, as this layer reports it
	view() (map[int]string, *vlib.Violation)
	count() int
	seats() *sm.SeatManager
	leaveOutOfRangeOK() bool
}

// --- table.Table -----------------------------------------------------------

type tableGlue struct{ t table.Table }

func newTableGlue(max int) *tableGlue {
	o := table.NewOptions()
	o.MaxSeats = max
	return &tableGlue{t: table.NewTable(o)}
}

func (g *tableGlue) join(seat int, id string) (int, error) {
	return g.t.Join(seat, &table.PlayerInfo{ID: id, Bankroll: 1000})
}
func (g *tableGlue) leave(seat int) error { return g.t.Leave(seat) }
func (g *tableGlue) leaveBatch(seats []int) {
	for _, s := range seats {
		g.t.Leave(s)
	}
}
func (g *tableGlue) sitin(seat int)          { g.t.Activate(seat) }
func (g *tableGlue) sitout(seat int)         { g.t.Reserve(seat) }
func (g *tableGlue) seats() *sm.SeatManager  { return table.VerifSeatManager(g.t) }
func (g *tableGlue) leaveOutOfRangeOK() bool { return true }
func (g *tableGlue) count() int              { return len(g.t.GetState().Players) }
func (g *tableGlue) view() (map[int]string, *vlib.Violation) {
	out := map[int]string{}
	for seat, p := range g.t.GetState().Players {
		if p == nil {
			continue
		}
		if p.SeatID != seat {
			return nil, vlib.V("C18", "glue/table/record-seat", "the table lists player %s under seat %d, the record says seat %d", p.ID, seat, p.SeatID)
		}
		out[seat] = p.ID
	}
	return out, nil
}

// --- match.Table -----------------------------------------------------------

type seatEvent struct {
	id   string
	seat int
}

type matchGlue struct {
	t      *match.Table
	mu     sync.Mutex
	joined []seatEvent // callback log
	left   []seatEvent
}

func newMatchGlue(max int) *matchGlue {
	g := &matchGlue{t: match.NewTable(max)}
	g.t.OnPlayerJoined(func(id string, seat int) {
		g.mu.Lock()
		g.joined = append(g.joined, seatEvent{id, seat})
		g.mu.Unlock()
	})
	g.t.OnPlayerLeft(func(id string, seat int) {
		g.mu.Lock()
		g.left = append(g.left, seatEvent{id, seat})
		g.mu.Unlock()
	})
	return g
}

// join (sequential use only): the seat is reported through the callback
func (g *matchGlue) join(seat int, id string) (int, error) {
	n := len(g.joined)
	if err := g.t.Join(seat, id); err != nil {
		if len(g.joined) != n {
			return -3, nil // a refused join announced a player
		}
		return -1, err
	}
	if len(g.joined) != n+1 || g.joined[n].id != id {
		return -2, nil // no (or a wrong) announcement: reported as a wrong seat
	}
	return g.joined[n].seat, nil
}

func (g *matchGlue) leave(seat int) error {
	s := g.t.SeatManager().GetSeat(seat)
	if s == nil || s.Player == nil {
		return fmt.Errorf("nobody there") // the tournament only reports seats that hold a player
	}
	sc := match.NewSeatChanges()
	sc.Dealer, sc.SB, sc.BB = -1, -1, -1
	if sc.Seats == nil {
		sc.Seats = map[int]string{}
	}
	sc.Seats[seat] = "left"
	return g.t.ApplySeatChanges(sc)
}
func (g *matchGlue) leaveBatch(seats []int) {
	sc := match.NewSeatChanges()
	for _, s := range seats {
		sc.Seats[s] = "left"
	}
	g.t.ApplySeatChanges(sc)
}
func (g *matchGlue) sitin(seat int)          { g.t.SeatManager().Seat(seat) }
func (g *matchGlue) sitout(seat int)         { g.t.SeatManager().Reserve(seat) }
func (g *matchGlue) seats() *sm.SeatManager  { return g.t.SeatManager() }
func (g *matchGlue) leaveOutOfRangeOK() bool { return false }
func (g *matchGlue) count() int              { return g.t.GetPlayerCount() }
func (g *matchGlue) view() (map[int]string, *vlib.Violation) {
	out := map[int]string{}
	for _, s := range g.t.SeatManager().GetSeats() {
		if s.Player != nil {
			out[s.ID] = fmt.Sprint(s.Player)
		}
	}
	ps, _ := g.t.GetPlayers()
	if len(ps) != len(out) {
		return nil, vlib.V("C18", "glue/match/player-list", "GetPlayers() lists %v, the seats hold %v", ps, out)
	}
	have := map[string]bool{}
	for _, id := range out {
		have[id] = true
	}
	for _, id := range ps {
		if !have[id] {
			return nil, vlib.V("C18", "glue/match/player-list", "GetPlayers() lists %v, the seats hold %v", ps, out)
		}
		delete(have, id)
	}
	return out, nil
}

// ---------------------------------------------------------------------------

var devNull *os.File

func quiet() func() {
	// table.Join prints a line for every refused join
	if devNull == nil {
		devNull, _ = os.OpenFile(os.DevNull, os.O_WRONLY, 0)
	}
	old := os.Stdout
	if devNull != nil {
		os.Stdout = devNull
	}
	return func() { os.Stdout = old }
}

func runGlueCase(c *glueCase, facts map[string]bool) (v *vlib.Violation) {
	vlib.StartWatchdog(90 * time.Second)
	vlib.Busy()
	defer vlib.Idle()
	defer quiet()()
	var g glue
	if c.Layer == "match" {
		g = newMatchGlue(c.Max)
	} else {
		g = newTableGlue(c.Max)
	}
	occ := make([]string, c.Max)
	res := make([]bool, c.Max)
	trace := ""
	pid := 0
	inRange := func(s int) bool { return s >= 0 && s < c.Max }
	viol := func(sig, format string, args ...interface{}) *vlib.Violation {
		return vlib.V("C18", "glue/"+c.Layer+"/"+sig, "%s table, max=%d after%s: %s", c.Layer, c.Max, trace, fmt.Sprintf(format, args...))
	}
	call := func(f func()) (pan interface{}) {
		defer func() {
			if e := recover(); e != nil {
				pan = e
			}
		}()
		f()
		return nil
	}
	check := func() *vlib.Violation {
		var view map[int]string
		var vv *vlib.Violation
		if pan := call(func() { view, vv = g.view() }); pan != nil {
			return viol("panic", "reading the seats crashed: %v", pan)
		}
		if vv != nil {
			vv.Detail = fmt.Sprintf("%s table, max=%d after%s: %s", c.Layer, c.Max, trace, vv.Detail)
			return vv
		}
		want := 0
		seen := map[string]int{}
		for s := 0; s < c.Max; s++ {
			if occ[s] != "" {
				want++
			}
			if view[s] != occ[s] {
				return viol("occupancy", "seat %d holds %q, by the history it holds %q", s, view[s], occ[s])
			}
			if view[s] != "" {
				if prev, dup := seen[view[s]]; dup {
					return viol("player-seated-twice", "player %s sits on seats %d and %d", view[s], prev, s)
				}
				seen[view[s]] = s
			}
		}
		for s := range view {
			if !inRange(s) {
				return viol("occupancy", "a player is listed on seat %d of a table with %d seats", s, c.Max)
			}
		}
		if got := g.count(); got != want {
			return viol("player-count", "%d players counted, successful joins minus leaves = %d", got, want)
		}
		// the table's record and the seat manager underneath agree
		for _, s := range g.seats().GetSeats() {
			who := ""
			if s.Player != nil {
				if pi, ok := s.Player.(*table.PlayerInfo); ok {
					who = pi.ID
				} else {
					who = fmt.Sprint(s.Player)
				}
			}
			if inRange(s.ID) && who != occ[s.ID] {
				return viol("seat-manager-disagrees", "the seat manager has %q on seat %d, the table has %q", who, s.ID, occ[s.ID])
			}
		}
		return nil
	}
	for _, op := range c.Ops {
		trace += fmt.Sprintf(" %s(%d)", op.K, op.S)
		switch op.K {
		case "join", "joinany":
			seat := op.S
			if op.K == "joinany" {
				seat = -1
			}
			pid++
			id := fmt.Sprintf("p%d", pid)
			var got int
			var err error
			if pan := call(func() { got, err = g.join(seat, id) }); pan != nil {
				return viol("panic", "Join(%d) crashed: %v", seat, pan)
			}
			free := 0
			for s := 0; s < c.Max; s++ {
				if occ[s] == "" && !res[s] {
					free++
				}
			}
			switch {
			case seat < -1 || seat >= c.Max:
				facts["failed-join"] = true
				if err == nil {
					return viol("join/out-of-range-accepted", "Join(%d) succeeded (seat %d)", seat, got)
				}
			case seat == -1:
				if err != nil {
					facts["failed-join"] = true
					if free > 0 {
						return viol("join-any/spurious-full", "Join(any) failed (%v) although %d seats are empty and not reserved", err, free)
					}
					break
				}
				if !inRange(got) || occ[got] != "" || res[got] {
					return viol("join-any/bad-seat", "Join(any) reported seat %d, which is not an empty non-reserved seat", got)
				}
				occ[got], res[got] = id, true
			default:
				if err != nil {
					facts["failed-join"] = true
					if occ[seat] == "" {
						return viol("join/empty-refused", "Join(%d) on an empty seat failed: %v", seat, err)
					}
					break
				}
				if occ[seat] != "" {
					return viol("join/occupied-accepted", "Join(%d) succeeded although %s sits there", seat, occ[seat])
				}
				if got != seat {
					return viol("join/wrong-seat", "Join(%d) reported seat %d", seat, got)
				}
				occ[seat], res[seat] = id, true
			}
		case "leave":
			if !inRange(op.S) && !g.leaveOutOfRangeOK() {
				continue
			}
			var err error
			if pan := call(func() { err = g.leave(op.S) }); pan != nil {
				return viol("panic", "leaving seat %d crashed: %v", op.S, pan)
			}
			if !inRange(op.S) {
				if err == nil {
					return viol("leave/out-of-range-accepted", "Leave(%d) succeeded", op.S)
				}
				break
			}
			if (occ[op.S] != "") != (err == nil) {
				if err == nil {
					return viol("leave/empty-accepted", "Leave(%d) of an empty seat succeeded", op.S)
				}
				return viol("leave/occupied-refused", "Leave(%d) failed: %v", op.S, err)
			}
			if err == nil {
				occ[op.S], res[op.S] = "", false
				facts["leave"] = true
			}
		case "leavebatch":
			// op.S is a set of seats (bit i = seat i)
			var seats []int
			for i := 0; i < c.Max; i++ {
				if op.S>>uint(i)&1 == 1 {
					seats = append(seats, i)
				}
			}
			if len(seats) == 0 {
				continue
			}
			if pan := call(func() { g.leaveBatch(seats) }); pan != nil {
				return viol("panic", "reporting seats %v as left crashed: %v", seats, pan)
			}
			stale := false
			for _, i := range seats {
				if occ[i] == "" {
					stale = true // nothing to free: the seat stays as it is
					continue
				}
				facts["leave"] = true
				occ[i], res[i] = "", false
			}
			if stale {
				facts["stale-left-report"] = true
			}
		case "sitin":
			if pan := call(func() { g.sitin(op.S) }); pan != nil {
				return viol("panic", "sitting in on seat %d crashed: %v", op.S, pan)
			}
			if inRange(op.S) {
				res[op.S] = false
			}
		case "sitout":
			if pan := call(func() { g.sitout(op.S) }); pan != nil {
				return viol("panic", "sitting out on seat %d crashed: %v", op.S, pan)
			}
			if inRange(op.S) {
				res[op.S] = true
			}
		}
		if v := check(); v != nil {
			return v
		}
	}
	if len(c.Race) == 0 {
		return nil
	}
	// racing joins on top of the history
	facts["race"] = true
	n := len(c.Race)
	got := make([]int, n)
	errs := make([]error, n)
	pans := make([]interface{}, n)
	start := make(chan struct{})
	var wg sync.WaitGroup
	for i := 0; i < n; i++ {
		wg.Add(1)
		go func(i int) {
			defer wg.Done()
			defer func() {
				if e := recover(); e != nil {
					pans[i] = e
				}
			}()
			<-start
			if tg, ok := g.(*tableGlue); ok {
				got[i], errs[i] = tg.join(c.Race[i], fmt.Sprintf("g%d", i))
			} else {
				// the seat comes through a shared callback log: only the outcome here
				errs[i] = g.(*matchGlue).t.Join(c.Race[i], fmt.Sprintf("g%d", i))
				got[i] = -1
			}
		}(i)
	}
	close(start)
	wg.Wait()
	trace += fmt.Sprintf(" then concurrently Join%v", c.Race)
	pre, ok := 0, 0
	for _, o := range occ {
		if o != "" {
			pre++
		}
	}
	seenSeat := map[int]int{}
	for i := 0; i < n; i++ {
		if pans[i] != nil {
			return viol("race/panic", "concurrent Join crashed: %v", pans[i])
		}
		if errs[i] != nil {
			continue
		}
		ok++
		if got[i] >= 0 {
			if j, dup := seenSeat[got[i]]; dup {
				return viol("race/double-booking", "goroutines %d and %d were both given seat %d", j, i, got[i])
			}
			seenSeat[got[i]] = i
			if inRange(got[i]) && occ[got[i]] != "" {
				return viol("race/double-booking", "goroutine %d was given seat %d where %s sits", i, got[i], occ[got[i]])
			}
		}
	}
	if pre+ok > c.Max {
		return viol("race/more-players-than-seats", "%d joins succeeded on top of %d players", ok, pre)
	}
	var view map[int]string
	var vv *vlib.Violation
	if pan := call(func() { view, vv = g.view() }); pan != nil {
		return viol("panic", "reading the seats crashed: %v", pan)
	}
	if vv != nil {
		return vv
	}
	if len(view) != pre+ok || g.count() != pre+ok {
		return viol("race/player-count", "%d joins succeeded on top of %d players; %d seats are listed as taken, the count says %d", ok, pre, len(view), g.count())
	}
	for s := 0; s < c.Max; s++ {
		if occ[s] != "" && view[s] != occ[s] {
			return viol("race/occupancy", "seat %d held %s before the racing joins and holds %q now", s, occ[s], view[s])
		}
	}
	ids := map[string]int{}
	for s, id := range view {
		if prev, dup := ids[id]; dup {
			return viol("race/player-seated-twice", "player %s sits on seats %d and %d", id, prev, s)
		}
		ids[id] = s
	}
	return nil
}

func TestGlueOccupancy(t *testing.T) {
	st := vlib.NewStats("glue-occupancy")
	vlib.RunRapid(t, "seats", "glue", st, func(rt *rapid.T) vlib.Outcome {
		c := &glueCase{Layer: rapid.SampledFrom([]string{"table", "table", "match"}).Draw(rt, "layer"), Max: rapid.IntRange(1, 10).Draw(rt, "max")}
		n := rapid.IntRange(1, 40).Draw(rt, "length")
		seat := func() int {
			switch rapid.IntRange(0, 29).Draw(rt, "seatClass") {
			case 0:
				return c.Max + rapid.IntRange(0, 2).Draw(rt, "over")
			case 1:
				return -1 - rapid.IntRange(1, 3).Draw(rt, "under")
			}
			return rapid.IntRange(0, c.Max-1).Draw(rt, "seat")
		}
		for i := 0; i < n; i++ {
			k := rapid.SampledFrom([]string{"join", "join", "join", "joinany", "joinany", "sitin", "sitin", "sitout", "leave", "leave", "leavebatch"}).Draw(rt, "op")
			if k == "leavebatch" {
				c.Ops = append(c.Ops, glueOp{K: k, S: rapid.IntRange(1, 1<<uint(c.Max)-1).Draw(rt, "seatSet")})
				continue
			}
			c.Ops = append(c.Ops, glueOp{K: k, S: seat()})
		}
		if rapid.IntRange(0, 3).Draw(rt, "race") == 0 {
			g := rapid.IntRange(2, 16).Draw(rt, "goroutines")
			for i := 0; i < g; i++ {
				if rapid.Bool().Draw(rt, "any") {
					c.Race = append(c.Race, -1)
				} else {
					c.Race = append(c.Race, rapid.IntRange(0, c.Max-1).Draw(rt, "raceSeat"))
				}
			}
		}
		facts := map[string]bool{}
		v := runGlueCase(c, facts)
		st.Evaluations++
		st.ClassIf(c.Layer == "table", "glue:table.Table")
		st.ClassIf(c.Layer == "match", "glue:match.Table")
		st.ClassIf(facts["race"], "glue:racing-joins")
		st.ClassIf(facts["stale-left-report"], "glue:left-report-with-stale-seat")
		if facts["failed-join"] && facts["leave"] {
			st.NonTrivial(vlib.Hash(c))
			st.Sample(c)
		}
		return vlib.Outcome{Case: c, Violation: v}
	})
}

func replayGlue(raw json.RawMessage) *vlib.Violation {
	var c glueCase
	json.Unmarshal(raw, &c)
	tries := 1
	if len(c.Race) > 0 {
		tries = 300
	}
	for i := 0; i < tries; i++ {
		if v := runGlueCase(&c, map[string]bool{}); v != nil {
			return v
		}
	}
	return nil
}
