package seats

import (
	"encoding/json"
	"fmt"
	"os"
	"sync"
	"testing"
	"time"

	sm "github.com/weedbox/pokerface/seat_manager"
	"pgregory.net/rapid"

	"verif/vlib"
)

// ---------------------------------------------------------------------------
// G-SEAT: rapid histories
// ---------------------------------------------------------------------------

type rapidSource struct {
	rt    *rapid.T
	left  int
	style int
	burst int // hands still to be played in a row with nothing else happening
}

func (s *rapidSource) seat(r *Run) int {
	rt := s.rt
	switch rapid.IntRange(0, 49).Draw(rt, "seatClass") {
	case 0:
		return r.Max + rapid.IntRange(0, 2).Draw(rt, "over")
	case 1:
		return -1 - rapid.IntRange(1, 3).Draw(rt, "under")
	}
	return rapid.IntRange(0, r.Max-1).Draw(rt, "seat")
}

func (s *rapidSource) Next(r *Run) (SOp, bool) {
	if s.burst > 0 {
		s.burst--
		return SOp{K: "next"}, true
	}
	if s.left <= 0 {
		return SOp{}, false
	}
	s.left--
	rt := s.rt
	// a quiet stretch: hand after hand with nobody coming or going (the button
	// goes round the table several times)
	if rapid.IntRange(0, 79).Draw(rt, "quietStretch") == 57 {
		s.burst = rapid.IntRange(4, 3*r.Max+6).Draw(rt, "hands")
		r.Facts["quiet-stretch"] = true
		return SOp{K: "next"}, true
	}
	// weights: joins and sit-ins dominate early so that tables fill up
	k := rapid.IntRange(0, 19).Draw(rt, "op")
	switch {
	case k < 4:
		return SOp{K: "join", S: s.seat(r)}, true
	case k < 6:
		free := r.FreeSeats()
		t := -1
		if len(free) > 0 {
			t = free[rapid.IntRange(0, len(free)-1).Draw(rt, "target")]
		}
		return SOp{K: "joinany", S: -1, Target: t}, true
	case k < 10:
		// sit in: prefer seats that are occupied and reserved
		var cands []int
		for i := 0; i < r.Max; i++ {
			if r.Occ[i] != "" && r.Res[i] {
				cands = append(cands, i)
			}
		}
		if len(cands) > 0 && rapid.IntRange(0, 3).Draw(rt, "sitWaiting") != 0 {
			return SOp{K: "seat", S: cands[rapid.IntRange(0, len(cands)-1).Draw(rt, "which")]}, true
		}
		return SOp{K: "seat", S: s.seat(r)}, true
	case k < 11:
		return SOp{K: "reserve", S: s.seat(r)}, true
	case k < 14:
		return SOp{K: "leave", S: s.seat(r)}, true
	case k == 16 && rapid.IntRange(0, 2).Draw(rt, "peek") == 0:
		return SOp{K: "peek", S: rapid.IntRange(-1, r.Max).Draw(rt, "peekSeat")}, true
	case k == 15 && rapid.IntRange(0, 9).Draw(rt, "reset") == 0:
		return SOp{K: "reset"}, true
	case k == 14 && rapid.IntRange(0, 5).Draw(rt, "restore") == 0:
		return SOp{K: "restore", S: rapid.IntRange(0, r.Max-1).Draw(rt, "sibling")}, true
	}
	return SOp{K: "next"}, true
}

func nonTrivial(prop string, r *Run) bool {
	switch prop {
	case "C08":
		return r.Facts["gap-near-button"]
	case "C17":
		return r.Facts["dealer-gone"] || r.Facts["non-playable-occupied-skipped"]
	case "C18":
		return r.Facts["failed-join"] && r.Facts["leave"]
	}
	return false
}

func TestSeatHistories(t *testing.T) {
	prop := vlib.Prop()
	st := vlib.NewStats("histories")
	vlib.RunRapid(t, "seats", "history", st, func(rt *rapid.T) vlib.Outcome {
		max := rapid.IntRange(2, 10).Draw(rt, "max")
		if rapid.Bool().Draw(rt, "small") {
			max = rapid.IntRange(2, 4).Draw(rt, "smallMax")
		}
		r := NewRun(prop, max, st)
		n := rapid.IntRange(1, 60).Draw(rt, "length")
		v := r.Play(&rapidSource{rt: rt, left: n})
		c := &Case{Max: max, Ops: r.Ops}
		st.Evaluations++
		st.Count("operations", int64(len(r.Ops)))
		if r.Aborted {
			st.Aborted++
		}
		for k, on := range r.Facts {
			if on {
				st.Class(k)
			}
		}
		if nonTrivial(prop, r) {
			st.NonTrivial(vlib.Hash(c))
			st.Sample(map[string]interface{}{"max": max, "history": r.trace()})
		}
		return vlib.Outcome{Case: c, Violation: v}
	})
}

// ---------------------------------------------------------------------------
// C08, second sentence: a newcomer between dealer and big blind
// ---------------------------------------------------------------------------

type betweenCase struct {
	Max       int    `json:"max"`
	Seated    []int  `json:"seated"`               // seats taken (joined and sat in) before the first hand
	Nexts     int    `json:"nexts"`                // hands played before the newcomer arrives
	Newcomer  int    `json:"newcomer"`             // index into the candidate seats strictly between dealer and bb
	Seat      int    `json:"seat"`                 // the seat chosen (filled in by the run)
	Ghosts    int    `json:"ghosts,omitempty"`     // players who took that seat and left again before the newcomer came
	GhostSat  bool   `json:"ghost_sat,omitempty"`  // ... and had sat in
	Visits    []int  `json:"visits,omitempty"`     // per following hand: another empty seat that somebody tries and leaves again (-1 = nobody)
	Sitters   []int  `json:"sitters,omitempty"`    // seats of players who have joined before the first hand but sit out ...
	SitAt     []int  `json:"sit_at,omitempty"`     // ... and sit in before that hand after the newcomer's arrival (-1 = never)
	HeldSeats bool   `json:"held_seats,omitempty"` // the table holds (reserves) its empty seats before anybody sits down
	Trace     string `json:"trace,omitempty"`
}

func runBetween(c *betweenCase) (v *vlib.Violation, valid bool) {
	vlib.StartWatchdog(90 * time.Second)
	vlib.Busy()
	defer vlib.Idle()
	defer func() {
		if e := recover(); e != nil {
			v = nil // a crash is C18's business
			valid = false
		}
	}()
	m := sm.NewSeatManager(c.Max)
	taken := map[int]bool{}
	for _, s := range c.Seated {
		if _, err := m.Join(s, fmt.Sprintf("p%d", s)); err != nil {
			return nil, false
		}
		m.Seat(s)
		taken[s] = true
	}
	if c.HeldSeats {
		// an empty seat that carries the reserved flag is an empty seat all the same
		for s := 0; s < c.Max; s++ {
			if !taken[s] {
				m.Reserve(s)
			}
		}
	}
	// players who keep their seat but sit out (and come back later): they stay put too
	for _, s := range c.Sitters {
		if taken[s] {
			continue
		}
		if _, err := m.Join(s, fmt.Sprintf("sitter%d", s)); err != nil {
			return nil, false
		}
		taken[s] = true
	}
	for i := 0; i < c.Nexts; i++ {
		if m.Next() != nil {
			return nil, false
		}
	}
	d, b := m.Dealer().ID, m.BigBlind().ID
	var cands []int
	for s := 0; s < c.Max; s++ {
		if !taken[s] && between(d, s, b, c.Max) {
			cands = append(cands, s)
		}
	}
	if len(cands) == 0 {
		return nil, false
	}
	x := cands[c.Newcomer%len(cands)]
	c.Seat = x
	// somebody may have tried the seat and left again: it is an empty seat all the same
	for g := 0; g < c.Ghosts; g++ {
		if _, err := m.Join(x, fmt.Sprintf("ghost%d", g)); err != nil {
			return vlib.V("C08", "newcomer/join-refused", "max=%d seated=%v nexts=%d: Join(%d) failed: %v", c.Max, c.Seated, c.Nexts, x, err), true
		}
		if c.GhostSat {
			m.Seat(x)
		}
		if err := m.Leave(x); err != nil {
			return nil, false
		}
	}
	if _, err := m.Join(x, "newcomer"); err != nil {
		return vlib.V("C08", "newcomer/join-refused", "max=%d seated=%v nexts=%d: Join(%d) between dealer %d and bb %d failed: %v", c.Max, c.Seated, c.Nexts, x, d, b, err), true
	}
	m.Seat(x)
	tr := fmt.Sprintf("max=%d seated=%v hands=%d dealer=%d bb=%d newcomer@%d (seat tried and left %d time(s) before)", c.Max, c.Seated, c.Nexts, d, b, x, c.Ghosts)
	if playable(m)[x] {
		return vlib.V("C08", "newcomer/dealt-in-early", "%s: playable before the button moved", tr), true
	}
	passed := false
	prev := d
	for i := 0; i < 2*c.Max; i++ {
		// passers-by on other empty seats change nothing for the newcomer
		if i < len(c.Visits) && c.Visits[i] >= 0 {
			if s := c.Visits[i] % c.Max; s != x && !taken[s] {
				if _, err := m.Join(s, "visitor"); err == nil {
					if c.GhostSat {
						m.Seat(s)
					}
					m.Leave(s)
				}
			}
		}
		for k, s := range c.Sitters {
			if k < len(c.SitAt) && c.SitAt[k] == i {
				m.Seat(s)
				tr += fmt.Sprintf(" [seat %d sits in]", s)
			}
		}
		if err := m.Next(); err != nil {
			return vlib.V("C08", "newcomer/next-refused", "%s: Next() failed with everybody staying put: %v", tr, err), true
		}
		nd := m.Dealer().ID
		// the button move prev -> nd passes seat x when x lies strictly between, or is reached
		if !passed && (between(prev, x, nd, c.Max) || nd == x) {
			if nd == x {
				// the button can only land on x if x was already dealt in
				return vlib.V("C08", "newcomer/dealt-in-early", "%s: the button landed on the newcomer's seat before passing it", tr), true
			}
			passed = true
		}
		pl := playable(m)
		in := pl[x]
		tr += fmt.Sprintf(" ->dealer %d (in=%v)", nd, in)
		if in && !passed {
			// With everybody else unchanged the newcomer's seat is still between button
			// and blinds. When a sat-out player has come back meanwhile, the blinds may
			// have moved in front of the newcomer: he must stay out only while his seat
			// still lies strictly between the dealer and the big blind the others have
			// among themselves.
			strict := true
			for k := range c.Sitters {
				if k < len(c.SitAt) && c.SitAt[k] >= 0 && c.SitAt[k] <= i {
					strict = false
				}
			}
			if !strict {
				others := map[int]bool{}
				for s, ok := range pl {
					if ok && s != x {
						others[s] = true
					}
				}
				bbOthers := firstAfter(others, nd, c.Max)
				if len(others) >= 3 {
					bbOthers = firstAfter(others, bbOthers, c.Max)
				}
				if bbOthers >= 0 && between(nd, x, bbOthers, c.Max) {
					return vlib.V("C08", "newcomer/dealt-in-early", "%s: dealt in on a seat between the dealer and the big blind of the others (%d)", tr, bbOthers), true
				}
				// let in behind the blinds: from now on he is one of the players
				c.Trace = tr
				return nil, true
			} else {
				return vlib.V("C08", "newcomer/dealt-in-early", "%s", tr), true
			}
		}
		if !in && passed {
			return vlib.V("C08", "newcomer/dealt-in-late", "%s", tr), true
		}
		prev = nd
	}
	c.Trace = tr
	return nil, true
}

func TestNewcomerBetween(t *testing.T) {
	st := vlib.NewStats("newcomer-between")
	vlib.RunRapid(t, "seats", "between", st, func(rt *rapid.T) vlib.Outcome {
		c := &betweenCase{}
		c.Max = rapid.IntRange(3, 10).Draw(rt, "max")
		k := rapid.IntRange(2, c.Max-1).Draw(rt, "players")
		all := make([]int, c.Max)
		for i := range all {
			all[i] = i
		}
		c.Seated = rapid.Permutation(all).Draw(rt, "seats")[:k]
		c.Nexts = rapid.IntRange(1, c.Max+2).Draw(rt, "hands")
		c.Newcomer = rapid.IntRange(0, c.Max).Draw(rt, "newcomer")
		if rapid.IntRange(0, 2).Draw(rt, "ghost") == 0 {
			c.Ghosts = rapid.IntRange(1, 2).Draw(rt, "ghosts")
			c.GhostSat = rapid.Bool().Draw(rt, "ghostSat")
		}
		if rapid.IntRange(0, 2).Draw(rt, "visitors") == 0 {
			c.Visits = rapid.SliceOfN(rapid.IntRange(-1, c.Max-1), 0, 2*c.Max).Draw(rt, "visits")
		}
		c.HeldSeats = rapid.IntRange(0, 3).Draw(rt, "heldSeats") == 0
		if k < c.Max-1 && rapid.IntRange(0, 2).Draw(rt, "sitters") == 0 {
			rest := rapid.Permutation(all).Draw(rt, "sitterSeats")
			n := rapid.IntRange(1, 2).Draw(rt, "nSitters")
			for _, s := range rest {
				isSeated := false
				for _, x := range c.Seated {
					if x == s {
						isSeated = true
					}
				}
				if !isSeated && len(c.Sitters) < n && len(c.Sitters) < c.Max-1-k {
					c.Sitters = append(c.Sitters, s)
					c.SitAt = append(c.SitAt, rapid.IntRange(-1, 2*c.Max-1).Draw(rt, "sitAt"))
				}
			}
		}
		v, valid := runBetween(c)
		st.Evaluations++
		if valid {
			st.Class("valid-in-between-seat")
			st.ClassIf(len(c.Sitters) > 0, "sat-out-player-returns")
			st.NonTrivial(vlib.Hash(c.Max, c.Seated, c.Nexts, c.Seat, c.Ghosts, c.GhostSat, c.Visits, c.Sitters, c.SitAt, c.HeldSeats))
			st.ClassIf(c.Ghosts > 0, "seat-tried-and-left-before")
			st.Sample(c)
		}
		return vlib.Outcome{Case: c, Violation: v}
	})
}

// ---------------------------------------------------------------------------
// bounded-exhaustive: every state reachable with <= 4 (thorough: 5) seats
// ---------------------------------------------------------------------------

func stateKey(m *sm.SeatManager) string {
	k := ""
	for _, s := range m.GetSeats() {
		k += fmt.Sprintf("%v%v%v|", s.Player != nil, s.IsReserved, s.IsActive)
	}
	return k + fmt.Sprint(seatID(m.Dealer()), seatID(m.SmallBlind()), seatID(m.BigBlind()))
}

func allOps(max int) []SOp {
	var ops []SOp
	for s := 0; s < max; s++ {
		ops = append(ops, SOp{K: "join", S: s}, SOp{K: "seat", S: s}, SOp{K: "reserve", S: s}, SOp{K: "leave", S: s})
	}
	return append(ops, SOp{K: "next"})
}

func TestReachableStates(t *testing.T) {
	prop := vlib.Prop()
	st := vlib.NewStats("reachable-states")
	st.Exhaustive = true
	defer func() { st.Write(os.Getenv("VERIF_OUT")) }()
	top := 4
	if vlib.Thorough() {
		top = 5
	}
	for max := 2; max <= top; max++ {
		ops := allOps(max)
		seen := map[string]bool{}
		r0 := NewRun(prop, max, st)
		seen[stateKey(r0.M)] = true
		frontier := [][]SOp{{}}
		var states, trans, nontriv int64 = 1, 0, 0
		for len(frontier) > 0 {
			// expand the frontier in parallel; each path is re-executed from scratch
			type found struct {
				path []SOp
				key  string
				v    *vlib.Violation
				nt   bool
			}
			out := make([][]found, len(frontier))
			var wg sync.WaitGroup
			sem := make(chan struct{}, 16)
			for i, path := range frontier {
				wg.Add(1)
				sem <- struct{}{}
				go func(i int, path []SOp) {
					defer wg.Done()
					defer func() { <-sem }()
					for _, op := range ops {
						np := append(append([]SOp{}, path...), op)
						r := NewRun(prop, max, vlib.NewStats("x"))
						v := r.Play(&ListSource{Ops: np})
						f := found{path: np, v: v, nt: nonTrivial(prop, r)}
						if v == nil && !r.Aborted {
							f.key = stateKey(r.M)
						}
						out[i] = append(out[i], f)
					}
				}(i, path)
			}
			wg.Wait()
			var next [][]SOp
			for i := range out {
				for _, f := range out[i] {
					trans++
					if f.nt {
						nontriv++
					}
					if f.v != nil && os.Getenv("VERIF_COLLECT") != "" {
						// experiment mode: collect every violating path instead of stopping
						b, _ := json.Marshal(map[string]interface{}{"case": &Case{Max: max, Ops: f.path}, "signature": f.v.Signature, "detail": f.v.Detail})
						fh, _ := os.OpenFile(os.Getenv("VERIF_COLLECT"), os.O_APPEND|os.O_CREATE|os.O_WRONLY, 0o644)
						fh.Write(append(b, '\n'))
						fh.Close()
						continue
					}
					if f.v != nil {
						st.Violations++
						b, _ := json.Marshal(&Case{Max: max, Ops: f.path})
						p := vlib.WriteReplay(&vlib.Replay{Property: prop, Harness: "seats", Kind: "history", Case: b, Violation: f.v})
						fmt.Printf("HARNESS-VIOLATION property=%s signature=%q replay=%s\n   %s\n", prop, f.v.Signature, p, f.v.Detail)
						t.Fail()
						return
					}
					if f.key != "" && !seen[f.key] {
						seen[f.key] = true
						states++
						next = append(next, f.path)
					}
				}
			}
			frontier = next
		}
		st.Evaluations += trans
		st.Count(fmt.Sprintf("states_max%d", max), states)
		st.Count(fmt.Sprintf("transitions_max%d", max), trans)
		st.Count("distinct_nontrivial_enumerated", nontriv)
		st.Sample(map[string]interface{}{"seats": max, "reachable_states": states, "transitions_checked": trans})
	}
}

// ---------------------------------------------------------------------------
// C18: concurrent joins (binary built with -race)
// ---------------------------------------------------------------------------

type raceCase struct {
	Max     int   `json:"max"`
	Targets []int `json:"targets"` // per goroutine: seat id or -1 = any
	Pre     []int `json:"pre"`     // seats occupied before the race
	Leaves  []int `json:"leaves,omitempty"` // per further goroutine: the seat it tries to leave during the race
}

func runRace(c *raceCase) *vlib.Violation {
	vlib.StartWatchdog(90 * time.Second)
	vlib.Busy()
	defer vlib.Idle()
	m := sm.NewSeatManager(c.Max)
	pre := 0
	for _, s := range c.Pre {
		if _, err := m.Join(s, fmt.Sprintf("pre%d", s)); err == nil {
			pre++
		}
	}
	g := len(c.Targets)
	res := make([]int, g)
	errs := make([]error, g)
	pans := make([]interface{}, g)
	start := make(chan struct{})
	var wg sync.WaitGroup
	for i := 0; i < g; i++ {
		wg.Add(1)
		go func(i int) {
			defer wg.Done()
			defer func() {
				if e := recover(); e != nil {
					pans[i] = e
				}
			}()
			<-start
			res[i], errs[i] = m.Join(c.Targets[i], fmt.Sprintf("g%d", i))
		}(i)
	}
	lerrs := make([]error, len(c.Leaves))
	lpans := make([]interface{}, len(c.Leaves))
	for i := range c.Leaves {
		wg.Add(1)
		go func(i int) {
			defer wg.Done()
			defer func() {
				if e := recover(); e != nil {
					lpans[i] = e
				}
			}()
			<-start
			lerrs[i] = m.Leave(c.Leaves[i])
		}(i)
	}
	close(start)
	wg.Wait()
	if len(c.Leaves) > 0 {
		return judgeRaceWithLeaves(c, m, res, errs, pans, lerrs, lpans)
	}
	seen := map[int]int{}
	ok := 0
	for i := 0; i < g; i++ {
		if pans[i] != nil {
			return vlib.V("C18", "race/panic", "concurrent Join panicked: %v", pans[i])
		}
		if errs[i] != nil {
			continue
		}
		ok++
		if j, dup := seen[res[i]]; dup {
			return vlib.V("C18", "race/double-booking", "max=%d: goroutines %d and %d were both given seat %d", c.Max, j, i, res[i])
		}
		seen[res[i]] = i
		if c.Targets[i] >= 0 && res[i] != c.Targets[i] {
			return vlib.V("C18", "race/wrong-seat", "Join(%d) returned %d", c.Targets[i], res[i])
		}
	}
	if ok+pre > c.Max {
		return vlib.V("C18", "race/more-players-than-seats", "max=%d: %d joins succeeded on top of %d players", c.Max, ok, pre)
	}
	if got := m.GetPlayerCount(); got != ok+pre {
		return vlib.V("C18", "race/player-count", "max=%d: %d joins succeeded on top of %d players, GetPlayerCount()=%d", c.Max, ok, pre, got)
	}
	// joining 'any' may only fail when the table is really full
	anyFailed := false
	for i := 0; i < g; i++ {
		if errs[i] != nil && c.Targets[i] == -1 {
			anyFailed = true
		}
	}
	if anyFailed && ok+pre < c.Max {
		return vlib.V("C18", "race/spurious-full", "max=%d: a Join(any) failed although only %d of the seats are taken", c.Max, ok+pre)
	}
	occupied := 0
	for _, s := range m.GetSeats() {
		if s.Player != nil {
			occupied++
		}
	}
	if occupied != ok+pre {
		return vlib.V("C18", "race/occupancy", "%d seats occupied, %d expected", occupied, ok+pre)
	}
	return nil
}

// judgeRaceWithLeaves: joins and leaves raced. Whatever order the calls took
// effect in, every seat ends up holding (players before + successful joins -
// successful leaves) players, which is 0 or 1 and what the seat list shows; the
// player count is the sum.
func judgeRaceWithLeaves(c *raceCase, m *sm.SeatManager, res []int, errs []error, pans []interface{}, lerrs []error, lpans []interface{}) *vlib.Violation {
	bal := make([]int, c.Max)
	preSeen := map[int]bool{}
	for _, s := range c.Pre {
		if s >= 0 && s < c.Max && !preSeen[s] {
			preSeen[s] = true
			bal[s]++
		}
	}
	joins, leaves := 0, 0
	for i := range c.Targets {
		if pans[i] != nil {
			return vlib.V("C18", "race/panic", "concurrent Join panicked: %v", pans[i])
		}
		if errs[i] != nil {
			continue
		}
		if res[i] < 0 || res[i] >= c.Max {
			return vlib.V("C18", "race/wrong-seat", "Join(%d) returned seat %d of %d", c.Targets[i], res[i], c.Max)
		}
		if c.Targets[i] >= 0 && res[i] != c.Targets[i] {
			return vlib.V("C18", "race/wrong-seat", "Join(%d) returned %d", c.Targets[i], res[i])
		}
		bal[res[i]]++
		joins++
	}
	for i, s := range c.Leaves {
		if lpans[i] != nil {
			return vlib.V("C18", "race/panic", "concurrent Leave panicked: %v", lpans[i])
		}
		if lerrs[i] != nil {
			continue
		}
		if s < 0 || s >= c.Max {
			return vlib.V("C18", "race/leave-of-missing-seat", "Leave(%d) succeeded on a table of %d seats", s, c.Max)
		}
		bal[s]--
		leaves++
	}
	total := 0
	seats := m.GetSeats()
	for s := 0; s < c.Max; s++ {
		if bal[s] < 0 || bal[s] > 1 {
			return vlib.V("C18", "race/joins-minus-leaves", "max=%d seat %d: players before the race + successful joins - successful leaves = %d (joins %d, leaves %d in all)", c.Max, s, bal[s], joins, leaves)
		}
		occ := 0
		if st := seats[s]; st != nil && st.Player != nil {
			occ = 1
		}
		if occ != bal[s] {
			return vlib.V("C18", "race/occupancy", "max=%d seat %d: holds %d player(s), joins minus leaves says %d", c.Max, s, occ, bal[s])
		}
		total += bal[s]
	}
	if got := m.GetPlayerCount(); got != total {
		return vlib.V("C18", "race/player-count", "max=%d: GetPlayerCount()=%d, players before + joins - leaves = %d", c.Max, got, total)
	}
	return nil
}

func TestJoinRace(t *testing.T) {
	st := vlib.NewStats("join-race")
	vlib.RunRapid(t, "seats-race", "race", st, func(rt *rapid.T) vlib.Outcome {
		c := &raceCase{Max: rapid.IntRange(2, 10).Draw(rt, "max")}
		g := rapid.IntRange(2, 32).Draw(rt, "goroutines")
		anyBias := rapid.IntRange(0, 3).Draw(rt, "anyBias")
		for i := 0; i < g; i++ {
			if rapid.IntRange(0, 3).Draw(rt, "any") <= anyBias {
				c.Targets = append(c.Targets, -1)
			} else {
				c.Targets = append(c.Targets, rapid.IntRange(0, c.Max-1).Draw(rt, "seat"))
			}
		}
		npre := rapid.IntRange(0, c.Max/2).Draw(rt, "pre")
		for i := 0; i < npre; i++ {
			c.Pre = append(c.Pre, rapid.IntRange(0, c.Max-1).Draw(rt, "preSeat"))
		}
		if rapid.IntRange(0, 2).Draw(rt, "withLeaves") == 1 {
			// leaves race with the joins: several goroutines may try to leave the same seat
			nl := rapid.IntRange(1, 12).Draw(rt, "leavers")
			hot := rapid.IntRange(0, c.Max-1).Draw(rt, "hotSeat")
			for i := 0; i < nl; i++ {
				if rapid.Bool().Draw(rt, "sameSeat") {
					c.Leaves = append(c.Leaves, hot)
				} else {
					c.Leaves = append(c.Leaves, rapid.IntRange(-1, c.Max).Draw(rt, "leaveSeat"))
				}
			}
			if npre == 0 || rapid.Bool().Draw(rt, "hotSeatTaken") {
				c.Pre = append(c.Pre, hot)
			}
			st.Class("racing-leaves")
		}
		st.Evaluations++
		if g > c.Max-npre {
			st.NonTrivial(vlib.Hash(c))
			st.Sample(c)
			st.Class("more-goroutines-than-free-seats")
		}
		return vlib.Outcome{Case: c, Violation: runRace(c)}
	})
}

// ---------------------------------------------------------------------------

func TestReplay(t *testing.T) {
	path := os.Getenv("VERIF_REPLAY")
	if path == "" {
		t.Skip("no VERIF_REPLAY")
	}
	r, err := vlib.ReadReplay(path)
	if err != nil {
		t.Fatalf("replay file: %v", err)
	}
	var v *vlib.Violation
	switch r.Kind {
	case "history":
		var c Case
		json.Unmarshal(r.Case, &c)
		v = Replay(&c, r.Property)
	case "table":
		v = replayTable(r.Case)
	case "glue":
		v = replayGlue(r.Case)
	case "between":
		var c betweenCase
		json.Unmarshal(r.Case, &c)
		v, _ = runBetween(&c)
	case "race":
		var c raceCase
		json.Unmarshal(r.Case, &c)
		if c.Max == 0 { // a race-detector report carries no case: rerun a stress
			c = raceCase{Max: 4, Targets: []int{-1, -1, 0, 1, -1, 2, -1, 3, -1, -1, 0, 1}}
		}
		for i := 0; i < 3000 && v == nil; i++ {
			v = runRace(&c)
		}
		for i := 0; i < 300 && v == nil; i++ {
			for _, layer := range []string{"table", "match"} {
				if v == nil {
					v = runGlueCase(&glueCase{Layer: layer, Max: 4, Ops: []glueOp{{K: "join", S: 1}}, Race: []int{-1, -1, 0, 1, -1, 2, -1, 3, -1, -1, 0, 1}}, map[string]bool{})
				}
			}
		}
	default:
		t.Fatalf("unknown replay kind %q", r.Kind)
	}
	vlib.ReportReplay(t, r, v)
}
