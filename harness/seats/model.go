// Package seats: model-based checks of seat_manager (C08, C17, C18).
package seats

import (
	"fmt"
	"sort"
	"time"

	sm "github.com/weedbox/pokerface/seat_manager"

	"verif/vlib"
)

// SOp is one seat-manager operation.
type SOp struct {
	K      string `json:"k"`                // join | joinany | seat | reserve | leave | next | restore | reset | peek
	S      int    `json:"s"`                // seat id (join/seat/reserve/leave); may be out of range
	Target int    `json:"target,omitempty"` // joinany: the free seat the history continues with
	Res    string `json:"res,omitempty"`    // observed result, informational
}

func (o SOp) String() string {
	switch o.K {
	case "next":
		return "next"
	case "joinany":
		return fmt.Sprintf("join(any->%d)", o.Target)
	}
	return fmt.Sprintf("%s(%d)", o.K, o.S)
}

// Case is a replayable seat history.
type Case struct {
	Max int   `json:"max"`
	Ops []SOp `json:"ops"`
}

// Source supplies the next operation given the model (generator or replay).
type Source interface {
	Next(r *Run) (SOp, bool)
}

// Run executes a history on the real seat manager next to a model.
type Run struct {
	Prop string
	Max  int
	M    *sm.SeatManager
	Occ  []string // model: player id per seat ("" = empty)
	Res  []bool   // model: reserved flag per seat
	Ops  []SOp
	pid  int
	// lastD: the seat the button was put on by the last successful Next() (-1: none yet)
	lastD int
	St    *vlib.Stats
	// facts for evidence
	Facts   map[string]bool
	Aborted bool
}

func NewRun(prop string, max int, st *vlib.Stats) *Run {
	return &Run{Prop: prop, Max: max, M: sm.NewSeatManager(max), Occ: make([]string, max), Res: make([]bool, max), St: st, Facts: map[string]bool{}, lastD: -1}
}

func (r *Run) FreeSeats() []int {
	var out []int
	for i := 0; i < r.Max; i++ {
		if r.Occ[i] == "" && !r.Res[i] {
			out = append(out, i)
		}
	}
	return out
}

func (r *Run) inRange(s int) bool { return s >= 0 && s < r.Max }

// Playable set: who sits where and who has sat in is taken from the model (what
// the history says), only the open/closed flag of a seat is read from the real
// seat list - so a seat manager whose occupancy or reservation flags have been
// corrupted (e.g. shared with another manager) is judged by what should be true.
func (r *Run) playable() map[int]bool {
	out := map[int]bool{}
	for _, s := range r.M.GetSeats() {
		if !r.inRange(s.ID) {
			continue
		}
		if r.Occ[s.ID] != "" && !r.Res[s.ID] && s.IsActive {
			out[s.ID] = true
		}
	}
	return out
}

// playable read purely from the public seat list (scenario checks without a model)
func playable(m *sm.SeatManager) map[int]bool {
	out := map[int]bool{}
	for _, s := range m.GetSeats() {
		if s.Player != nil && s.IsActive && !s.IsReserved {
			out[s.ID] = true
		}
	}
	return out
}

func keys(m map[int]bool) []int {
	o := []int{}
	for k := range m {
		o = append(o, k)
	}
	sort.Ints(o)
	return o
}

func firstAfter(set map[int]bool, from, max int) int {
	for k := 1; k <= max; k++ {
		id := (from + k) % max
		if set[id] {
			return id
		}
	}
	return -1
}

// strictly inside the clockwise interval (a, b)
func between(a, x, b, max int) bool {
	for k := 1; k < max; k++ {
		id := (a + k) % max
		if id == b {
			return false
		}
		if id == x {
			return true
		}
	}
	return false
}

func seatID(s *sm.Seat) int {
	if s == nil {
		return -1
	}
	return s.ID
}

type callResult struct {
	got   int
	err   error
	panic interface{}
}

func (r *Run) call(f func() (int, error)) (res callResult) {
	defer func() {
		if e := recover(); e != nil {
			res.panic = e
		}
	}()
	g, err := f()
	return callResult{got: g, err: err}
}

func (r *Run) viol(prop, sig, format string, args ...interface{}) *vlib.Violation {
	if prop != r.Prop {
		return nil
	}
	return vlib.V(prop, sig, "max=%d after %s: %s", r.Max, r.trace(), fmt.Sprintf(format, args...))
}

func (r *Run) trace() string {
	s := ""
	for i, o := range r.Ops {
		if i > 0 {
			s += " "
		}
		s += o.String()
		if o.Res != "" {
			s += "=" + o.Res
		}
	}
	return s
}

// Step executes one operation and checks the clauses of the active property.
func (r *Run) Step(op SOp) *vlib.Violation {
	vlib.StartWatchdog(90 * time.Second)
	vlib.Busy()
	defer vlib.Idle()
	m := r.M
	preP := r.playable()
	preD := seatID(m.Dealer())
	if r.lastD >= 0 && preD != r.lastD {
		// the move is owed from the button of the last hand that was dealt, wherever
		// the manager's own pointer has got to meanwhile (forgotten, or moved by a
		// move that was refused)
		preD = r.lastD
		r.Facts["dealer-pointer-moved-without-a-hand"] = true
	}
	q := 0
	for i := 0; i < r.Max; i++ {
		if r.Occ[i] != "" && !r.Res[i] {
			q++
		}
	}
	var cr callResult
	var v *vlib.Violation
	note := func(x *vlib.Violation) {
		if v == nil && x != nil {
			v = x
		}
	}
	switch op.K {
	case "join":
		r.pid++
		id := fmt.Sprintf("p%d", r.pid)
		cr = r.call(func() (int, error) { return m.Join(op.S, id) })
		op.Res = resStr(cr)
		r.Ops = append(r.Ops, op)
		if cr.panic != nil {
			break
		}
		switch {
		case op.S >= r.Max || op.S < -1:
			if cr.err == nil {
				note(r.viol("C18", "join/out-of-range-accepted", "Join(%d) succeeded (seat %d)", op.S, cr.got))
			}
			r.Facts["out-of-range"] = true
		case op.S == -1:
			// handled as joinany by the generator; a raw -1 in a replay is fine too
			if cr.err == nil && r.inRange(cr.got) {
				if r.Occ[cr.got] != "" || r.Res[cr.got] {
					note(r.viol("C18", "join-any/bad-seat", "Join(any) returned seat %d which was occupied or reserved", cr.got))
				}
				r.Occ[cr.got], r.Res[cr.got] = id, true
			}
		default:
			if (r.Occ[op.S] != "") != (cr.err != nil) {
				if cr.err == nil {
					note(r.viol("C18", "join/occupied-accepted", "Join(%d) succeeded although %s sits there", op.S, r.Occ[op.S]))
				} else {
					note(r.viol("C18", "join/empty-refused", "Join(%d) on an empty seat failed: %v", op.S, cr.err))
				}
			}
			if cr.err != nil {
				r.Facts["failed-join"] = true
			}
			if cr.err == nil {
				if cr.got != op.S {
					note(r.viol("C18", "join/wrong-seat", "Join(%d) returned seat %d", op.S, cr.got))
				}
				r.Occ[op.S], r.Res[op.S] = id, true
			}
		}
	case "joinany":
		r.pid++
		id := fmt.Sprintf("p%d", r.pid)
		free := r.FreeSeats()
		cr = r.call(func() (int, error) { return m.Join(-1, id) })
		op.Res = resStr(cr)
		r.Ops = append(r.Ops, op)
		if cr.panic != nil {
			break
		}
		if cr.err != nil {
			if len(free) > 0 {
				note(r.viol("C18", "join-any/spurious-full", "Join(any) failed (%v) although seats %v are empty and not reserved", cr.err, free))
			} else if cr.err != sm.ErrNoAvailableSeat {
				note(r.viol("C18", "join-any/wrong-error", "Join(any) on a full table returned %v", cr.err))
			}
			r.Facts["failed-join"] = true
			break
		}
		if !r.inRange(cr.got) || r.Occ[cr.got] != "" || r.Res[cr.got] {
			note(r.viol("C18", "join-any/bad-seat", "Join(any) returned seat %d which is not an empty non-reserved seat (free: %v)", cr.got, free))
			if r.inRange(cr.got) {
				r.Occ[cr.got], r.Res[cr.got] = id, true
			}
			break
		}
		// Canonicalise: Join(any) picks with the global math/rand and map order.
		// Leaving and joining the drawn target instead is state-equivalent and
		// makes the rest of the history a pure function of the draws.
		if cr.got != op.Target && r.inRange(op.Target) && r.Occ[op.Target] == "" && !r.Res[op.Target] {
			c2 := r.call(func() (int, error) { return 0, m.Leave(cr.got) })
			c3 := r.call(func() (int, error) { return m.Join(op.Target, id) })
			if c2.panic != nil || c3.panic != nil || c2.err != nil || c3.err != nil {
				note(r.viol("C18", "join-any/canonicalise", "Leave(%d)/Join(%d) after Join(any): %v %v %v %v", cr.got, op.Target, c2.err, c2.panic, c3.err, c3.panic))
			}
			r.Occ[op.Target], r.Res[op.Target] = id, true
		} else {
			r.Occ[cr.got], r.Res[cr.got] = id, true
		}
	case "seat":
		cr = r.call(func() (int, error) { return 0, m.Seat(op.S) })
		op.Res = resStr(cr)
		r.Ops = append(r.Ops, op)
		if cr.panic == nil {
			if r.inRange(op.S) {
				if cr.err != nil {
					note(r.viol("C18", "seat/refused", "Seat(%d) failed: %v", op.S, cr.err))
				} else {
					r.Res[op.S] = false
				}
			} else {
				r.Facts["out-of-range"] = true
				if cr.err == nil {
					note(r.viol("C18", "seat/out-of-range-accepted", "Seat(%d) succeeded", op.S))
				}
			}
		}
	case "reserve":
		cr = r.call(func() (int, error) { return 0, m.Reserve(op.S) })
		op.Res = resStr(cr)
		r.Ops = append(r.Ops, op)
		if cr.panic == nil {
			if r.inRange(op.S) {
				if cr.err != nil {
					note(r.viol("C18", "reserve/refused", "Reserve(%d) failed: %v", op.S, cr.err))
				} else {
					r.Res[op.S] = true
				}
			} else {
				r.Facts["out-of-range"] = true
				if cr.err == nil {
					note(r.viol("C18", "reserve/out-of-range-accepted", "Reserve(%d) succeeded", op.S))
				}
			}
		}
	case "leave":
		cr = r.call(func() (int, error) { return 0, m.Leave(op.S) })
		op.Res = resStr(cr)
		r.Ops = append(r.Ops, op)
		if cr.panic == nil {
			if !r.inRange(op.S) {
				r.Facts["out-of-range"] = true
				if cr.err == nil {
					note(r.viol("C18", "leave/out-of-range-accepted", "Leave(%d) succeeded", op.S))
				}
			} else {
				if (r.Occ[op.S] != "") != (cr.err == nil) {
					if cr.err == nil {
						note(r.viol("C18", "leave/empty-accepted", "Leave(%d) of an empty seat succeeded", op.S))
					} else {
						note(r.viol("C18", "leave/occupied-refused", "Leave(%d) failed: %v", op.S, cr.err))
					}
				}
				if cr.err == nil {
					r.Occ[op.S], r.Res[op.S] = "", false
					r.Facts["leave"] = true
				}
			}
		}
	case "next":
		cr = r.call(func() (int, error) { return 0, m.Next() })
		op.Res = resStr(cr)
		r.Ops = append(r.Ops, op)
		if cr.panic != nil {
			break
		}
		r.St.Class("next")
		if cr.err != nil {
			if cr.err != sm.ErrInsufficientNumberOfPlayers {
				note(r.viol("C17", "next/wrong-error", "Next() returned %v", cr.err))
			}
			if len(preP) >= 2 {
				note(r.viol("C17", "next/refused-with-two-playable", "Next() refused (%v) although seats %v could play", cr.err, keys(preP)))
			} else if q >= 2 {
				// fewer than two could play before the call, but the move may only be
				// refused if that is still so after the waiting players have been let
				// in: with nobody (or one player) able to play, everybody who has sat in
				// is let in
				note(r.viol("C17", "next/refused-with-waiting-players", "Next() refused (%v): %d seat(s) could play, but %d players have sat in and are waiting to be let in", cr.err, len(preP), q))
			}
			r.St.Class("next-refused")
			break
		}
		if q < 2 {
			note(r.viol("C17", "next/accepted-with-too-few", "Next() succeeded although only %d player(s) are seated and not reserved", q))
		}
		r.St.Class("next-ok")
		P := r.playable()
		d, s, b := m.Dealer(), m.SmallBlind(), m.BigBlind()
		r.lastD = seatID(d)
		// C17: the button moved to the first playable seat after the old dealer
		if len(preP) >= 2 && preD >= 0 {
			want := firstAfter(preP, preD, r.Max)
			if seatID(d) != want {
				sig := "button/skipped"
				switch {
				case seatID(d) == preD:
					sig = "button/stayed"
				case between(preD, want, seatID(d), r.Max):
					sig = "button/skipped"
				default:
					sig = "button/wrong-seat"
				}
				note(r.viol("C17", sig, "dealer was %d, seats able to play %v, new dealer %d, expected %d", preD, keys(preP), seatID(d), want))
			}
			if !preP[preD] {
				r.Facts["dealer-gone"] = true
			}
			for k := 1; k < r.Max; k++ {
				id := (preD + k) % r.Max
				if id == want {
					break
				}
				if r.Occ[id] != "" {
					r.Facts["non-playable-occupied-skipped"] = true
				}
			}
		}
		// C18: a player who has merely joined (or sits out) is held out of play:
		// no position may land on such a seat and it is not among the playable seats
		if r.Prop == "C18" {
			for name, st := range map[string]*sm.Seat{"dealer": d, "small blind": s, "big blind": b} {
				if st != nil && r.inRange(st.ID) && (r.Res[st.ID] || r.Occ[st.ID] == "") {
					who := "an empty seat"
					if r.Occ[st.ID] != "" {
						who = "seat of " + r.Occ[st.ID] + ", who has joined but not sat in"
					}
					note(r.viol("C18", "held-out-of-play/position", "after Next() the %s is on seat %d (%s)", name, st.ID, who))
				}
			}
			func() {
				defer func() { recover() }()
				for _, x := range m.GetPlayableSeats() {
					if r.inRange(x.ID) && (r.Res[x.ID] || r.Occ[x.ID] == "") {
						note(r.viol("C18", "held-out-of-play/playable", "after Next() seat %d is among the playable seats although its player has not sat in (or it is empty)", x.ID))
					}
				}
			}()
		}
		// C08: positions
		if d == nil || s == nil || b == nil {
			note(r.viol("C08", "positions/nil", "after Next() dealer=%d sb=%d bb=%d", seatID(d), seatID(s), seatID(b)))
			break
		}
		var gp map[int]bool
		func() {
			defer func() {
				if e := recover(); e != nil {
					cr.panic = e
				}
			}()
			gp = map[int]bool{}
			for _, x := range m.GetPlayableSeats() {
				gp[x.ID] = true
			}
		}()
		if cr.panic != nil {
			break
		}
		if fmt.Sprint(keys(gp)) != fmt.Sprint(keys(P)) {
			note(r.viol("C08", "playable-seats-mismatch", "GetPlayableSeats()=%v, occupied/active/not reserved seats %v", keys(gp), keys(P)))
		}
		op2 := fmt.Sprintf("dealer=%d sb=%d bb=%d playable=%v", d.ID, s.ID, b.ID, keys(P))
		if !P[d.ID] || !P[s.ID] || !P[b.ID] {
			note(r.viol("C08", "position-on-non-playable-seat", "%s", op2))
		}
		switch {
		case len(P) < 2:
			note(r.viol("C08", "fewer-than-two-playable", "%s", op2))
		case len(P) == 2:
			if s.ID != d.ID || b.ID == d.ID {
				note(r.viol("C08", "heads-up-positions", "%s", op2))
			}
			r.Facts["heads-up"] = true
		default:
			if s.ID != firstAfter(P, d.ID, r.Max) {
				note(r.viol("C08", "small-blind-seat", "%s", op2))
			} else if b.ID != firstAfter(P, s.ID, r.Max) {
				note(r.viol("C08", "big-blind-seat", "%s", op2))
			}
		}
		// non-trivial: a non-playable seat among the first three clockwise
		for k, id := 1, d.ID; k <= 3 && k < r.Max; k++ {
			id = (d.ID + k) % r.Max
			if !P[id] {
				r.Facts["gap-near-button"] = true
			}
		}
	case "peek":
		// read-only calls between two operations (what a table does to render its
		// seats): none of them is a seat operation, none may change anything - the
		// invariants below and the following operations are the judge. GetPlayableSeats
		// needs a dealer, so it is only asked once a hand has been set up.
		func() {
			defer func() { recover() }()
			m.GetAvailableSeats()
			m.GetAvailableSeatCount()
			m.GetActiveSeats()
			m.GetNormalizeSeats(op.S)
			m.GetSeat(op.S)
			m.GetSeatCount()
			m.GetPlayerCount()
			m.GetPlayableSeatCount()
			if m.Dealer() != nil {
				m.GetPlayableSeats()
			}
		}()
		op.Res = "ok"
		r.Ops = append(r.Ops, op)
		r.Facts["peek"] = true
	case "reset":
		// the table is recycled: every seat is emptied
		cr = r.call(func() (int, error) { m.Reset(); return 0, nil })
		op.Res = resStr(cr)
		r.Ops = append(r.Ops, op)
		if cr.panic == nil {
			for i := range r.Occ {
				r.Occ[i], r.Res[i] = "", false
			}
			r.Facts["reset"] = true
			r.lastD = -1
		}
	case "restore":
		// The table is restored from a snapshot of its seats (ApplyStates), the way a
		// table service comes back after a restart - and a second manager is restored
		// from the very same snapshot object and then goes its own way (S = what
		// happens there). Nothing of that may show at this table.
		op.Res = "ok"
		r.Ops = append(r.Ops, op)
		cr = r.call(func() (int, error) {
			st := &sm.SeatManagerState{Max: r.Max, Seats: map[int]*sm.Seat{}, Dealer: seatID(m.Dealer()), SB: seatID(m.SmallBlind()), BB: seatID(m.BigBlind())}
			for _, x := range m.GetSeats() {
				c := *x
				st.Seats[x.ID] = &c
			}
			a, b := sm.NewSeatManager(r.Max), sm.NewSeatManager(r.Max)
			if err := a.ApplyStates(st); err != nil {
				return 0, err
			}
			if err := b.ApplyStates(st); err != nil {
				return 0, err
			}
			// the sibling: everybody there sits out, leaves, and the seats are reserved
			k := op.S
			for i := 0; i < r.Max; i++ {
				id := (k + i) % r.Max
				switch (k + i) % 3 {
				case 0:
					b.Reserve(id)
				case 1:
					b.Leave(id)
					b.Join(id, "sibling")
					b.Seat(id)
				default:
					b.Seat(id)
				}
			}
			b.Next()
			// ... and the snapshot object itself is reused by its owner
			for _, x := range st.Seats {
				x.Player, x.IsReserved, x.IsActive = nil, true, false
			}
			r.M = a
			return 0, nil
		})
		if cr.panic == nil && cr.err != nil {
			note(r.viol("C18", "restore/refused", "ApplyStates failed: %v", cr.err))
		}
		r.Facts["restored"] = true
	default:
		return vlib.V(r.Prop, "harness", "unknown op %q", op.K)
	}
	if cr.panic != nil {
		r.Ops[len(r.Ops)-1].Res = fmt.Sprintf("PANIC: %v", cr.panic)
		if r.Prop == "C18" {
			return vlib.V("C18", "panic/"+op.K, "max=%d after %s: %v", r.Max, r.trace(), cr.panic)
		}
		// C17 demands an outcome of Next() in these two regions: a crash is neither
		if r.Prop == "C17" && op.K == "next" && (q < 2 || len(preP) >= 2) {
			return vlib.V("C17", "next/panic", "max=%d after %s: Next() with %d seated non-reserved player(s), %d able to play, crashed: %v", r.Max, r.trace(), q, len(preP), cr.panic)
		}
		r.Aborted = true
		return nil
	}
	if v != nil {
		return v
	}
	// invariants after every operation (C18)
	if r.Prop == "C18" {
		cnt := 0
		seen := map[string]int{}
		for _, s := range r.M.GetSeats() {
			who := ""
			if s.Player != nil {
				who = fmt.Sprint(s.Player)
				cnt++
				if prev, dup := seen[who]; dup {
					return r.viol("C18", "player-seated-twice", "player %s sits on seats %d and %d", who, prev, s.ID)
				}
				seen[who] = s.ID
			}
			if who != r.Occ[s.ID] {
				return r.viol("C18", "occupancy/"+op.K, "seat %d holds %q, model says %q", s.ID, who, r.Occ[s.ID])
			}
			if s.IsReserved != r.Res[s.ID] {
				return r.viol("C18", "held-out-of-play/"+op.K, "seat %d reserved=%v, expected %v (a joined player is held out until Seat())", s.ID, s.IsReserved, r.Res[s.ID])
			}
		}
		if got := r.M.GetPlayerCount(); got != cnt {
			return r.viol("C18", "player-count", "GetPlayerCount()=%d, %d seats are occupied", got, cnt)
		}
		want := 0
		for _, o := range r.Occ {
			if o != "" {
				want++
			}
		}
		if cnt != want {
			return r.viol("C18", "player-count", "%d seats occupied, joins minus leaves = %d", cnt, want)
		}
	} else {
		// For C08 / C17 a disagreement between the seat list and the history is not
		// reported (that is C18's business) but the history goes on: who can play is
		// judged from what the history says (Run.playable), so a manager whose seats
		// have been corrupted still has to put the button and the blinds where they
		// belong.
		for _, s := range r.M.GetSeats() {
			who := ""
			if s.Player != nil {
				who = fmt.Sprint(s.Player)
			}
			if who != r.Occ[s.ID] || s.IsReserved != r.Res[s.ID] {
				r.Facts["seat-list-disagrees-with-history"] = true
			}
		}
	}
	return nil
}

func resStr(c callResult) string {
	switch {
	case c.panic != nil:
		return "PANIC"
	case c.err != nil:
		return "err"
	}
	return "ok"
}

// Play runs a whole history.
func (r *Run) Play(src Source) *vlib.Violation {
	for {
		op, ok := src.Next(r)
		if !ok {
			return nil
		}
		if v := r.Step(op); v != nil {
			return v
		}
		if r.Aborted {
			return nil
		}
	}
}

// ListSource replays recorded operations.
type ListSource struct {
	Ops []SOp
	i   int
}

func (l *ListSource) Next(r *Run) (SOp, bool) {
	if l.i >= len(l.Ops) {
		return SOp{}, false
	}
	op := l.Ops[l.i]
	op.Res = ""
	l.i++
	return op, true
}

// Replay runs a recorded history, and then the same history turned by 1..max-1
// seats: the rules are the same all round the table, a defect that depends on
// where seat 0 lies shows up in one of the rotations.
func Replay(c *Case, prop string) *vlib.Violation {
	for rot := 0; rot < c.Max; rot++ {
		ops := make([]SOp, len(c.Ops))
		for i, o := range c.Ops {
			ops[i] = o
			if rot > 0 {
				if o.K != "next" && o.K != "restore" && o.K != "peek" && o.S >= 0 && o.S < c.Max {
					ops[i].S = (o.S + rot) % c.Max
				}
				if o.K == "joinany" && o.Target >= 0 && o.Target < c.Max {
					ops[i].Target = (o.Target + rot) % c.Max
				}
			}
		}
		r := NewRun(prop, c.Max, vlib.NewStats("replay"))
		if v := r.Play(&ListSource{Ops: ops}); v != nil {
			if rot > 0 {
				v.Detail = fmt.Sprintf("(recorded history turned by %d seats) %s", rot, v.Detail)
			}
			return v
		}
	}
	return nil
}
