// vcheck is the driver behind ./check: it rebuilds the harness test binaries
// against /repo's current working tree, runs the stages of one property
// (regress replays, enumerative stages, sharded rapid stages, bounded native
// fuzz), merges the statistics into evidence/<id>.json and maps the outcome to
// the exit code contract (0 held / 1 VIOLATION / 2 infrastructure).
package main

import (
	"encoding/json"
	"flag"
	"fmt"
	"os"
	"os/exec"
	"path/filepath"
	"runtime"
	"sort"
	"strconv"
	"strings"
	"sync"
	"time"

	"verif/vlib"
)

// verifDir is where the framework lives: /verif, or a snapshot of it (vp run)
var verifDir = envOr("VERIF_DIR", "/verif")

// outDir is where binaries, evidence and replays go; /verif unless an experiment
// (mutant run against a scratch copy of the repository) redirects it.
var outDir = envOr("VERIF_OUTDIR", verifDir)

// altRepo, when set, makes the harness build against that copy of the
// repository instead of /repo (sensitivity experiments only; registered
// commands never set it).
var altRepo = os.Getenv("VERIF_REPO")

func main() {
	if len(os.Args) < 2 {
		fmt.Fprintln(os.Stderr, "usage: check <ID> [--tier quick|thorough] [--replay <file>] | check build | check list")
		os.Exit(2)
	}
	id := os.Args[1]
	fs := flag.NewFlagSet("check", flag.ExitOnError)
	tier := fs.String("tier", envOr("VERIF_TIER", "quick"), "quick|thorough")
	replay := fs.String("replay", "", "replay file")
	scale := fs.Float64("scale", 1.0, "multiply case counts (experiments)")
	only := fs.String("stage", "", "run only stages whose name contains this")
	fs.Parse(os.Args[2:])
	seed, _ := strconv.ParseInt(envOr("VERIF_SEED", "1"), 10, 64)

	setEnv()
	switch id {
	case "build":
		for _, h := range []string{"cards", "pots", "hand", "seats", "mtt"} {
			if _, err := build(h, false); err != nil {
				fmt.Fprintln(os.Stderr, err)
				os.Exit(2)
			}
		}
		if _, err := build("seats", true); err != nil {
			fmt.Fprintln(os.Stderr, err)
			os.Exit(2)
		}
		return
	case "list":
		ids := []string{}
		for k := range plans {
			ids = append(ids, k)
		}
		sort.Strings(ids)
		fmt.Println(strings.Join(ids, " "))
		return
	}
	plan, ok := plans[id]
	if !ok {
		fmt.Fprintf(os.Stderr, "unknown property %q\n", id)
		os.Exit(2)
	}
	if *replay != "" {
		os.Exit(runReplay(id, *replay, true))
	}
	os.Exit(runCheck(id, plan, *tier, seed, *scale, *only))
}

func envOr(k, d string) string {
	if v := os.Getenv(k); v != "" {
		return v
	}
	return d
}

func setEnv() {
	os.Setenv("GOFLAGS", "-mod=mod")
	os.Setenv("GOPROXY", "off")
	os.Setenv("GOSUMDB", "off")
	os.Setenv("GOTOOLCHAIN", "local")
	os.Setenv("GOWORK", "off")
}

// ---------------------------------------------------------------------------
// building
// ---------------------------------------------------------------------------

var buildMu sync.Mutex
var built = map[string]string{}

// build compiles /verif/harness/<h> as a test binary against the current /repo.
func build(h string, race bool) (string, error) {
	buildMu.Lock()
	defer buildMu.Unlock()
	key := h
	if race {
		key += "-race"
	}
	if p, ok := built[key]; ok {
		return p, nil
	}
	out := filepath.Join(outDir, "bin", key+".test")
	os.MkdirAll(filepath.Dir(out), 0o755)
	args := []string{"test", "-c", "-tags", "verif", "-vet=off", "-o", out}
	if altRepo != "" {
		mod, _ := os.ReadFile(filepath.Join(verifDir, "go.mod"))
		alt := strings.Replace(string(mod), "=> /repo", "=> "+altRepo, 1)
		modPath := filepath.Join(outDir, "bin", "alt.mod")
		os.WriteFile(modPath, []byte(alt), 0o644)
		sum, _ := os.ReadFile(filepath.Join(verifDir, "go.sum"))
		os.WriteFile(filepath.Join(outDir, "bin", "alt.sum"), sum, 0o644)
		args = append(args, "-modfile", modPath)
	}
	if race {
		args = append(args, "-race")
	}
	args = append(args, "./harness/"+h)
	cmd := exec.Command("go", args...)
	cmd.Dir = verifDir
	b, err := cmd.CombinedOutput()
	if err != nil {
		return "", fmt.Errorf("BUILD-FAILED harness=%s: %v\n%s", h, err, b)
	}
	built[key] = out
	return out, nil
}

// ---------------------------------------------------------------------------
// plans
// ---------------------------------------------------------------------------

type stage struct {
	Name         string
	Harness      string
	Test         string // -test.run pattern
	Mode         string // rapid | enum | race | fuzz
	Quick        int    // cases (rapid: total checks over all shards; enum: ignored)
	Thorough     int
	Steps        int // -rapid.steps (0 = default)
	StepsT       int
	Shards       int // 0 = auto (rapid: up to 16)
	Race         bool
	Env          []string
	FuzzSecs     int // thorough only
	ThoroughOnly bool
}

type plan struct {
	Level  string
	Rule   string
	Assume []string
	Stages []stage
}

var plans = map[string]plan{}

// ---------------------------------------------------------------------------
// running
// ---------------------------------------------------------------------------

type stageResult struct {
	st        *vlib.Stats
	hashes    map[uint64]struct{}
	replays   []string
	infra     []string
	wall      float64
	requested int
	passedN   int
}

func mixSeed(seed int64, prop string, stageIdx, shard int) uint64 {
	x := uint64(seed)*0x9E3779B97F4A7C15 + vlib.Hash(prop, stageIdx, shard)
	x ^= x >> 31
	x *= 0xBF58476D1CE4E5B9
	x ^= x >> 29
	x &= (1 << 62) - 1
	return x | 1 // never 0 (rapid: 0 = random)
}

func runCheck(id string, p plan, tier string, seed int64, scale float64, only string) int {
	start := time.Now()
	evPath := filepath.Join(outDir, "evidence", id+".json")
	os.MkdirAll(filepath.Dir(evPath), 0o755)
	os.MkdirAll(filepath.Join(outDir, "replays"), 0o755)
	os.Remove(evPath)

	kf := loadKnown()
	violations := []string{}
	infra := []string{}
	knownLines := []string{}

	// 1. regress tier: saved minimal cases of confirmed findings
	regressRun, regressFail := 0, 0
	files, _ := filepath.Glob(filepath.Join(verifDir, "regress", id, "*.json"))
	sort.Strings(files)
	for _, f := range files {
		regressRun++
		switch runReplay(id, f, false) {
		case 0:
		case 1:
			regressFail++
			// the saved file carries the violation as it was when the case was saved;
			// report what the replay found now
			sig, detail := lastReplaySig, lastReplayDetail
			out := f
			if r, _ := vlib.ReadReplay(f); r != nil {
				r.Violation = &vlib.Violation{Property: id, Signature: sig, Detail: detail}
				r.Note = "regress case " + f + " fails again"
				b, _ := json.MarshalIndent(r, "", " ")
				out = filepath.Join(outDir, "replays", id+"-regress-"+filepath.Base(f))
				os.WriteFile(out, b, 0o644)
			}
			if e := kf.open(id, sig); e != nil {
				knownLines = append(knownLines, fmt.Sprintf("KNOWN-FINDING: property=%s %s", id, e.What))
			} else {
				violations = append(violations, out)
			}
		default:
			infra = append(infra, "replay of "+f)
		}
	}

	// 2. stages
	merged := vlib.NewStats("merged")
	hashes := map[uint64]struct{}{}
	stageInfo := []map[string]interface{}{}
	exhaustive := false
	anyStage := false
	inconclusive := 0
	for i, s := range p.Stages {
		if s.ThoroughOnly && tier != "thorough" {
			continue
		}
		if only != "" && !strings.Contains(s.Name, only) {
			continue
		}
		res := runStage(id, i, s, tier, seed, scale)
		anyStage = true
		info := map[string]interface{}{"stage": s.Name, "mode": s.Mode, "wall_s": round2(res.wall), "evaluations": res.st.Evaluations, "distinct_nontrivial": len(res.hashes)}
		if s.Mode == "rapid" {
			info["rapid_checks_requested"] = res.requested
			info["rapid_checks_passed"] = res.passedN
			if res.passedN < res.requested && len(res.replays) == 0 && len(res.infra) == 0 {
				inconclusive++
				info["inconclusive_budget"] = true
			}
		}
		if res.st.Exhaustive {
			info["exhaustive"] = true
			exhaustive = true
		}
		stageInfo = append(stageInfo, info)
		mergeStats(merged, res.st)
		for h := range res.hashes {
			hashes[h] = struct{}{}
		}
		infra = append(infra, res.infra...)
		stuck := false
		for _, l := range res.infra {
			if strings.Contains(l, "exit status 3") {
				stuck = true // the watchdog ended a process: a call into the code under test does not return
			}
		}
		if stuck && len(res.replays) == 0 {
			infra = append(infra, "the remaining stages were not run: the code under test does not return from a call (inconclusive)")
			break
		}
		for _, rp := range res.replays {
			r, _ := vlib.ReadReplay(rp)
			sig := ""
			if r != nil && r.Violation != nil {
				sig = r.Violation.Signature
			}
			if e := kf.open(id, sig); e != nil {
				knownLines = append(knownLines, fmt.Sprintf("KNOWN-FINDING: property=%s %s", id, e.What))
			} else {
				violations = append(violations, rp)
			}
		}
	}
	if !anyStage {
		exhaustive = false
	}

	// 3. evidence
	wall := time.Since(start).Seconds()
	nontrivial := len(hashes)
	// cases enumerated exactly once each are distinct by construction
	nontrivial += int(merged.Counters["distinct_nontrivial_enumerated"])
	samples := merged.Samples
	if len(samples) > 6 {
		samples = samples[:6]
	}
	cov := map[string]interface{}{
		"evaluations":            merged.Evaluations,
		"distinct_nontrivial":    nontrivial,
		"rule":                   p.Rule,
		"samples":                samples,
		"classes":                merged.Classes,
		"counters":               merged.Counters,
		"stages":                 stageInfo,
		"regress_cases_replayed": regressRun,
		"regress_cases_failing":  regressFail,
		"aborted_by_panic":       merged.Aborted,
		"inconclusive_stages":    inconclusive,
		"known_findings_hit":     len(knownLines),
		"exhaustive":             exhaustive && merged.Evaluations > 0,
	}
	ev := map[string]interface{}{
		"property_id": id,
		"tier":        tier,
		"seed":        seed,
		"level":       p.Level,
		"coverage":    cov,
		"assumptions": p.Assume,
		"wall_s":      round2(wall),
		"violations":  len(violations),
	}
	if len(infra) > 0 {
		ev["infrastructure_problems"] = infra
	}
	b, _ := json.MarshalIndent(ev, "", " ")
	os.WriteFile(evPath, b, 0o644)

	// 4. verdict
	for _, l := range dedup(knownLines) {
		fmt.Println(l)
	}
	if len(violations) > 0 {
		for _, v := range violations {
			fmt.Printf("VIOLATION property=%s replay=%s\n", id, v)
		}
		return 1
	}
	if len(infra) > 0 {
		for _, s := range infra {
			fmt.Fprintf(os.Stderr, "INFRASTRUCTURE property=%s %s\n", id, s)
		}
		return 2
	}
	fmt.Printf("OK property=%s tier=%s seed=%d evaluations=%d distinct_nontrivial=%d wall=%.1fs\n", id, tier, seed, merged.Evaluations, nontrivial, wall)
	return 0
}

func round2(f float64) float64 { return float64(int64(f*100+0.5)) / 100 }

func dedup(xs []string) []string {
	seen := map[string]bool{}
	out := []string{}
	for _, x := range xs {
		if !seen[x] {
			seen[x] = true
			out = append(out, x)
		}
	}
	return out
}

func mergeStats(into, s *vlib.Stats) {
	into.Evaluations += s.Evaluations
	into.Violations += s.Violations
	into.Aborted += s.Aborted
	for k, v := range s.Classes {
		into.Classes[k] += v
	}
	for k, v := range s.Counters {
		into.Counters[k] += v
	}
	// interleave samples from different stages
	for _, sm := range s.Samples {
		if len(into.Samples) < 12 {
			into.Samples = append(into.Samples, sm)
		}
	}
}

func runStage(id string, idx int, s stage, tier string, seed int64, scale float64) *stageResult {
	res := &stageResult{st: vlib.NewStats(s.Name), hashes: map[uint64]struct{}{}}
	t0 := time.Now()
	defer func() { res.wall = time.Since(t0).Seconds() }()
	bin, err := build(s.Harness, s.Race)
	if err != nil {
		res.infra = append(res.infra, err.Error())
		return res
	}
	n := s.Quick
	steps := s.Steps
	if tier == "thorough" {
		if s.Thorough > 0 {
			n = s.Thorough
		}
		if s.StepsT > 0 {
			steps = s.StepsT
		}
	}
	n = int(float64(n) * scale)
	shards := s.Shards
	if shards == 0 {
		shards = 1
		if s.Mode == "rapid" || s.Mode == "race" {
			shards = runtime.NumCPU()
			if shards > 16 {
				shards = 16
			}
			for shards > 1 && n/shards < 50 {
				shards /= 2
			}
		}
	}
	if s.Mode == "fuzz" {
		runFuzz(id, idx, s, tier, res)
		return res
	}
	tmp, _ := os.MkdirTemp("", "vcheck-"+id+"-")
	defer os.RemoveAll(tmp)
	res.requested = 0
	var wg sync.WaitGroup
	var mu sync.Mutex
	for sh := 0; sh < shards; sh++ {
		per := n / shards
		if sh < n%shards {
			per++
		}
		if (s.Mode == "rapid" || s.Mode == "race") && per == 0 {
			continue
		}
		res.requested += per
		wg.Add(1)
		go func(sh, per int) {
			defer wg.Done()
			outFile := filepath.Join(tmp, fmt.Sprintf("stats-%d.json", sh))
			rseed := mixSeed(seed, id, idx, sh)
			replayOut := filepath.Join(outDir, "replays", fmt.Sprintf("%s-%s-seed%d-shard%d.json", id, s.Name, seed, sh))
			os.Remove(replayOut)
			wd := filepath.Join(tmp, fmt.Sprintf("wd-%d", sh))
			os.MkdirAll(wd, 0o755)
			args := []string{"-test.run", "^" + s.Test + "$", "-test.count=1", "-test.timeout", timeoutFor(tier)}
			if s.Mode == "rapid" || s.Mode == "race" {
				args = append(args, fmt.Sprintf("-rapid.seed=%d", rseed), fmt.Sprintf("-rapid.checks=%d", per), "-rapid.nofailfile", "-rapid.shrinktime=20s")
				if steps > 0 {
					args = append(args, fmt.Sprintf("-rapid.steps=%d", steps))
				}
			}
			cmd := exec.Command(bin, args...)
			cmd.Dir = wd
			cmd.Env = append(os.Environ(),
				"VERIF_PROP="+id, "VERIF_TIER="+tier, "VERIF_OUT="+outFile, "VERIF_REPLAY_OUT="+replayOut,
				fmt.Sprintf("VERIF_SHARD=%d", sh), fmt.Sprintf("VERIF_SHARDS=%d", shards), fmt.Sprintf("VERIF_N=%d", per),
				fmt.Sprintf("VERIF_SEED_MIXED=%d", rseed), "VERIF_STAGE="+s.Name)
			cmd.Env = append(cmd.Env, s.Env...)
			out, err := cmd.CombinedOutput()
			mu.Lock()
			defer mu.Unlock()
			stats := readStats(outFile)
			if stats != nil {
				mergeStats(res.st, stats)
				if stats.Exhaustive {
					res.st.Exhaustive = true
				}
				vlib.DecodeHashes(stats.Hashes, res.hashes)
			}
			res.passedN += parsePassed(string(out), per, err == nil)
			if err != nil {
				if _, e := os.Stat(replayOut); e != nil && s.Race && strings.Contains(string(out), "WARNING: DATA RACE") {
					// the race detector, not an oracle, failed the run: its report is the finding
					txt := string(out)
					i := strings.Index(txt, "WARNING: DATA RACE")
					exc := txt[i:]
					if len(exc) > 2500 {
						exc = exc[:2500]
					}
					rp := &vlib.Replay{Property: id, Harness: s.Harness + "-race", Kind: "race", Case: json.RawMessage("{}"),
						Violation: &vlib.Violation{Property: id, Signature: "race/data-race", Detail: exc}}
					b, _ := json.MarshalIndent(rp, "", " ")
					os.WriteFile(replayOut, b, 0o644)
				}
				if _, e := os.Stat(replayOut); e != nil {
					// The harness process itself died with a runtime fatal error (these cannot
					// be recovered: unlock of an unlocked mutex, concurrent map writes, stack
					// exhaustion, all goroutines asleep) inside the code under test. For the
					// property that demands crash-freedom / completion of that code this is
					// the violation; the replay re-runs the very same process.
					if sig, exc := fatalInSUT(string(out)); sig != "" && crashProp[s.Harness] == id {
						cc, _ := json.Marshal(crashCase{Harness: s.Harness, Race: s.Race, Args: args, Env: append([]string{"VERIF_PROP=" + id, "VERIF_TIER=" + tier, "VERIF_STAGE=" + s.Name, fmt.Sprintf("VERIF_N=%d", per), fmt.Sprintf("VERIF_SHARD=%d", sh), fmt.Sprintf("VERIF_SHARDS=%d", shards)}, s.Env...)})
						rp := &vlib.Replay{Property: id, Harness: s.Harness, Kind: "crash", Case: cc,
							Violation: &vlib.Violation{Property: id, Signature: "crash/" + sig, Detail: "the process running the code under test died: " + exc}}
						b, _ := json.MarshalIndent(rp, "", " ")
						os.WriteFile(replayOut, b, 0o644)
					}
				}
				if _, e := os.Stat(replayOut); e == nil {
					res.replays = append(res.replays, replayOut)
				} else {
					tail := string(out)
					if len(tail) > 3000 {
						tail = tail[len(tail)-3000:]
					}
					// keep the output for inspection
					logf := filepath.Join(outDir, "replays", fmt.Sprintf("%s-%s-shard%d.infra.log", id, s.Name, sh))
					os.WriteFile(logf, out, 0o644)
					res.infra = append(res.infra, fmt.Sprintf("stage %s shard %d: %v (no replay file; output in %s): %s", s.Name, sh, err, logf, lastLines(tail, 6)))
				}
			} else if stats == nil {
				res.infra = append(res.infra, fmt.Sprintf("stage %s shard %d: no statistics written (test %s missing?)", s.Name, sh, s.Test))
			}
		}(sh, per)
	}
	wg.Wait()
	return res
}

func lastLines(s string, n int) string {
	ls := strings.Split(strings.TrimSpace(s), "\n")
	if len(ls) > n {
		ls = ls[len(ls)-n:]
	}
	return strings.Join(ls, " | ")
}

func timeoutFor(tier string) string {
	if tier == "thorough" {
		return "45m"
	}
	return "9m"
}

// parsePassed extracts N from rapid's "OK, passed N tests" (N may be below the
// requested count when rapid ran into the go test deadline).
func parsePassed(out string, requested int, ok bool) int {
	i := strings.Index(out, "OK, passed ")
	if i < 0 {
		if ok {
			return requested
		}
		return 0
	}
	rest := out[i+len("OK, passed "):]
	j := strings.IndexByte(rest, ' ')
	if j < 0 {
		return 0
	}
	n, _ := strconv.Atoi(rest[:j])
	return n
}

func readStats(path string) *vlib.Stats {
	b, err := os.ReadFile(path)
	if err != nil {
		return nil
	}
	var s vlib.Stats
	if json.Unmarshal(b, &s) != nil {
		return nil
	}
	if s.Classes == nil {
		s.Classes = map[string]int64{}
	}
	if s.Counters == nil {
		s.Counters = map[string]int64{}
	}
	return &s
}

// ---------------------------------------------------------------------------
// replay
// ---------------------------------------------------------------------------

var lastReplaySig, lastReplayDetail string

// crashProp: the property that a death of the process inside the code driven by
// that harness violates (C18: seat operations never crash; C06: every step
// completes and the hand finishes; C09: no history loses the regulator).
var crashProp = map[string]string{"seats": "C18", "hand": "C06", "mtt": "C09"}

type crashCase struct {
	Harness string   `json:"harness"`
	Race    bool     `json:"race"`
	Args    []string `json:"args"`
	Env     []string `json:"env"`
}

// fatalInSUT recognises a Go runtime fatal error whose stack runs through the
// repository under test.
func fatalInSUT(out string) (sig, excerpt string) {
	i := strings.Index(out, "fatal error: ")
	if i < 0 {
		return "", ""
	}
	rest := out[i:]
	if !strings.Contains(rest, "github.com/weedbox/pokerface") {
		return "", ""
	}
	line := rest[len("fatal error: "):]
	if j := strings.IndexByte(line, '\n'); j >= 0 {
		line = line[:j]
	}
	if len(rest) > 2500 {
		rest = rest[:2500]
	}
	return strings.TrimSpace(line), rest
}

func replayCrash(id, file string, r *vlib.Replay, verbose bool) int {
	var c crashCase
	if json.Unmarshal(r.Case, &c) != nil || c.Harness == "" {
		return 2
	}
	bin, err := build(c.Harness, c.Race)
	if err != nil {
		fmt.Fprintln(os.Stderr, err)
		return 2
	}
	tmp, _ := os.MkdirTemp("", "vcheck-crash-")
	defer os.RemoveAll(tmp)
	cmd := exec.Command(bin, c.Args...)
	cmd.Dir = tmp
	cmd.Env = append(append(os.Environ(), c.Env...), "VERIF_OUT="+filepath.Join(tmp, "stats.json"), "VERIF_REPLAY_OUT="+filepath.Join(tmp, "replay.json"))
	out, err := cmd.CombinedOutput()
	if verbose {
		s := string(out)
		if len(s) > 4000 {
			s = s[:4000]
		}
		fmt.Print(s)
	}
	if sig, exc := fatalInSUT(string(out)); sig != "" {
		lastReplaySig, lastReplayDetail = "crash/"+sig, exc
		if verbose {
			fmt.Printf("the process died again: %s\nVIOLATION property=%s replay=%s\n", sig, id, file)
		}
		return 1
	}
	if err == nil {
		return 0
	}
	return 2
}

func runReplay(id, file string, verbose bool) int {
	r, err := vlib.ReadReplay(file)
	if err != nil {
		fmt.Fprintf(os.Stderr, "replay %s: %v\n", file, err)
		return 2
	}
	if r.Kind == "crash" {
		return replayCrash(id, file, r, verbose)
	}
	race := r.Harness == "seats-race"
	h := strings.TrimSuffix(r.Harness, "-race")
	bin, err := build(h, race)
	if err != nil {
		fmt.Fprintln(os.Stderr, err)
		return 2
	}
	cmd := exec.Command(bin, "-test.run", "^TestReplay$", "-test.count=1", "-test.timeout", "5m", "-test.v")
	cmd.Dir = os.TempDir()
	cmd.Env = append(os.Environ(), "VERIF_PROP="+id, "VERIF_REPLAY="+file)
	out, err := cmd.CombinedOutput()
	s := string(out)
	if verbose {
		fmt.Print(s)
	}
	if i := strings.Index(s, "REPLAY-VIOLATION"); i >= 0 {
		lines := strings.SplitN(s[i:], "\n", 3)
		lastReplaySig, lastReplayDetail = "", ""
		if j := strings.Index(lines[0], "signature="); j >= 0 {
			lastReplaySig, _ = strconv.Unquote(strings.TrimSpace(lines[0][j+len("signature="):]))
		}
		if len(lines) > 1 {
			lastReplayDetail = strings.TrimSpace(lines[1])
		}
		if verbose {
			fmt.Printf("VIOLATION property=%s replay=%s\n", id, file)
		}
		return 1
	}
	if err == nil && strings.Contains(s, "REPLAY-OK") {
		return 0
	}
	if !verbose {
		fmt.Fprint(os.Stderr, s)
	}
	return 2
}

// ---------------------------------------------------------------------------
// known findings
// ---------------------------------------------------------------------------

type knownEntry struct {
	Status    string `json:"status"` // open | fixed
	Property  string `json:"property"`
	Signature string `json:"signature,omitempty"`
	Commit    string `json:"commit,omitempty"`
	What      string `json:"what"`
	Text      string `json:"text,omitempty"`
}

type knownFile struct {
	Findings []knownEntry `json:"findings"`
}

func loadKnown() *knownFile {
	var k knownFile
	b, err := os.ReadFile(filepath.Join(verifDir, "known_findings.json"))
	if err == nil {
		json.Unmarshal(b, &k)
	}
	return &k
}

// open returns the open entry that lists exactly this violation signature.
// fixed entries suppress nothing.
func (k *knownFile) open(prop, sig string) *knownEntry {
	for i := range k.Findings {
		e := &k.Findings[i]
		if e.Status == "open" && e.Property == prop && e.Signature != "" && e.Signature == sig {
			return e
		}
	}
	return nil
}

// ---------------------------------------------------------------------------
// native fuzz stage (thorough tier, vector properties)
// ---------------------------------------------------------------------------

func runFuzz(id string, idx int, s stage, tier string, res *stageResult) {
	secs := s.FuzzSecs
	if secs == 0 {
		secs = 60
	}
	// The compiled test binary is run with -test.fuzz directly: corpus cache and
	// crashers live in a fresh temp dir outside /verif that is removed afterwards
	// (seed inputs are f.Add'ed in the target itself).
	bin, berr := build(s.Harness, false)
	if berr != nil {
		res.infra = append(res.infra, berr.Error())
		return
	}
	cache, _ := os.MkdirTemp("", "vcheck-fuzz-")
	defer os.RemoveAll(cache)
	statsFile := filepath.Join(cache, "stats.json")
	replayOut := filepath.Join(outDir, "replays", fmt.Sprintf("%s-%s-fuzz.json", id, s.Name))
	os.Remove(replayOut)
	crashDir := filepath.Join(cache, "testdata", "fuzz", s.Test)
	before := listDir(crashDir)
	cmd := exec.Command(bin, "-test.run", "^$", "-test.fuzz", "^"+s.Test+"$", "-test.fuzztime", fmt.Sprintf("%ds", secs),
		"-test.fuzzcachedir", filepath.Join(cache, "corpus"), "-test.timeout", "30m")
	cmd.Dir = cache
	cmd.Env = append(os.Environ(), "VERIF_PROP="+id, "VERIF_TIER="+tier, "VERIF_OUT="+statsFile, "VERIF_REPLAY_OUT="+replayOut, "VERIF_STAGE="+s.Name)
	out, err := cmd.CombinedOutput()
	text := string(out)
	execs := int64(0)
	for _, line := range strings.Split(text, "\n") {
		if i := strings.Index(line, "execs: "); i >= 0 {
			f := strings.Fields(line[i+7:])
			if len(f) > 0 {
				if n, e := strconv.ParseInt(f[0], 10, 64); e == nil && n > execs {
					execs = n
				}
			}
		}
	}
	res.st.Evaluations += execs
	res.st.Count("native_fuzz_execs", execs)
	if err != nil {
		// a crasher written by the fuzzer = the property failed inside the target
		after := listDir(crashDir)
		newFiles := []string{}
		for f := range after {
			if !before[f] {
				newFiles = append(newFiles, filepath.Join(crashDir, f))
			}
		}
		if _, e := os.Stat(replayOut); e == nil {
			res.replays = append(res.replays, replayOut)
			for _, f := range newFiles {
				os.Remove(f)
			}
		} else if strings.Contains(text, "context deadline exceeded") || strings.Contains(text, "fuzzing process hung") {
			res.st.Count("native_fuzz_inconclusive", 1)
		} else {
			res.infra = append(res.infra, "native fuzz stage: "+lastLines(text, 8))
		}
	}
}

func listDir(d string) map[string]bool {
	m := map[string]bool{}
	es, _ := os.ReadDir(d)
	for _, e := range es {
		m[e.Name()] = true
	}
	return m
}
