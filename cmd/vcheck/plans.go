package main

func init() {
	plans["C03"] = plan{
		Level:  "exploration",
		Rule:   "exhaustive stage: every 5-card hand of the 52- and the 36-card deck under both ranking tables is scored by the evaluator and by an independent reference ranker; hands are grouped by reference key, every group must have one score and groups must be strictly increasing (decides every pair of hands); evaluations = hands scored; non-trivial = hand whose reference category is at least a pair (counted), plus distinct (hand, table, suit relabelling) triples of the metamorphic stage (all 120 card orders each)",
		Assume: []string{"the reference ranker (harness/cards/ref.go) encodes the rules of poker", "hands with ranks A-9-8-7-6 are left open under the 36-card deck or the short-deck table, as the property says"},
		Stages: []stage{
			{Name: "exhaustive", Harness: "cards", Test: "TestC03Exhaustive", Mode: "enum", Shards: 1},
			{Name: "metamorphic", Harness: "cards", Test: "TestC03Perm", Mode: "rapid", Quick: 16000, Thorough: 1000000},
		},
	}

	vecAssume := []string{"the reference layered-pot model (harness/pots/ref.go) encodes the statement", "vectors are handed to pot.LevelList / settlement.Result exactly the way pot.go and settlement.go wire them (each player added once)"}
	plans["C02"] = plan{
		Level:  "exploration",
		Rule:   "cases = contribution/fold/strength vectors (rapid, small-scope exhaustive grid n<=5 over {0..3}x{fold}x{1,2}, native fuzz in thorough) settled by the real pot+settlement packages and compared with a reference layered model (per-player interval); non-trivial = vector with >= 2 pots, or a tie, or a folded partial contributor; distinct = distinct (contributions, folds, strengths)",
		Assume: vecAssume,
		Stages: []stage{
			{Name: "grid", Harness: "pots", Test: "TestVecGrid", Mode: "enum", Shards: 1},
			{Name: "vectors", Harness: "pots", Test: "TestVecRapid", Mode: "rapid", Quick: 800000, Thorough: 20000000},
			{Name: "fuzz", Harness: "pots", Test: "FuzzVec", Mode: "fuzz", FuzzSecs: 120, ThoroughOnly: true},
		},
	}
	plans["C16"] = plan{
		Level:  "exploration",
		Rule:   "cases = contribution/fold vectors in any insertion order (rapid, exhaustive grid n<=5, native fuzz in thorough) turned into pots by pot.LevelList and checked against the partition formulas; non-trivial = >= 2 distinct positive contributions with a folded partial contributor, or a zero contribution; distinct = distinct (contributions, folds)",
		Assume: vecAssume,
		Stages: []stage{
			{Name: "grid", Harness: "pots", Test: "TestVecGrid", Mode: "enum", Shards: 1},
			{Name: "vectors", Harness: "pots", Test: "TestVecRapid", Mode: "rapid", Quick: 800000, Thorough: 20000000},
			{Name: "fuzz", Harness: "pots", Test: "FuzzVec", Mode: "fuzz", FuzzSecs: 120, ThoroughOnly: true},
		},
	}

	handAssume := []string{
		"the deck order is put in place after Start() and before the first card is dealt (Start() shuffles with a time seed)",
		"configurations are those of G-CFG (DESIGN.md §3): one dealer and one big-blind seat, positions as table/internal.go derives them, BB >= 1, a deck large enough to deal the hand",
		"operations in scope are the Operations and Actions of the Game interface (what table.Backend exposes)",
	}
	hand := func(q, th int) stage {
		return stage{Name: "hands", Harness: "hand", Test: "TestHand", Mode: "rapid", Quick: q, Thorough: th}
	}
	tiny := stage{Name: "tiny-games", Harness: "hand", Test: "TestTinyGames", Mode: "enum", Shards: 1}
	// two hands alive at once, decks straight from the engine's constructors,
	// operations interleaved: state shared between games shows up here
	two := func(q, th int) stage {
		return stage{Name: "two-tables", Harness: "hand", Test: "TestTwoTables", Mode: "rapid", Quick: q, Thorough: th}
	}
	plans["C01"] = plan{Level: "exploration", Assume: handAssume,
		Rule:   "cases = generated (configuration, deck, play history incl. hostile amounts) driven through the real engine, chip identities checked after every operation; non-trivial = hand with >= 2 distinct positive contribution totals at close, or a stack within 1 chip of a forced amount, or a hostile/refused sized request; distinct = distinct (configuration, operation list)",
		Stages: []stage{two(3000, 100000), hand(40000, 1500000)}}
	plans["C04"] = plan{Level: "exploration", Assume: handAssume,
		Rule:   "cases = generated hands with up to 6 negative probes at every wait point (table operation of another phase, action of another seat, unoffered action of the current seat, any action outside a round); every probe must return an error and leave the state JSON (minus updated_at) identical; turn order checked at every turn; non-trivial = hand with at least one probe; counters.probes = probes executed",
		Stages: []stage{two(2000, 60000), hand(16000, 400000)}}
	plans["C05"] = plan{Level: "exploration", Assume: handAssume,
		Rule:   "cases = generated hands with tight stacks (raise / short all-in heavy) + every action history of every tiny game (2 seats bankrolls 1..6, 3 seats 1..4; thorough 1..8 / 1..6; blinds 1/2); turn bookkeeping checked at every round closure; non-trivial = hand containing a round with a raise or all-in followed by a further turn",
		Stages: []stage{tiny, two(3000, 100000), hand(40000, 1500000)}}
	plans["C06"] = plan{Level: "exploration", Assume: handAssume,
		Rule:   "cases = generated hands under all policies (the expected step must succeed, streets in order, no state repeats, step bound 16+n(4+E), result exactly at close, probes after close refused) + invalid start configurations + every action history of every tiny game (the DFS terminating with all leaves closed is the finiteness of every path there); non-trivial = hand with >= 2 streets, a fold-out or an all-in run-out; an invalid start",
		Stages: []stage{tiny, {Name: "start", Harness: "hand", Test: "TestStartValidation", Mode: "rapid", Quick: 10000, Thorough: 200000}, two(3000, 100000), hand(30000, 1200000)}}
	plans["C07"] = plan{Level: "exploration", Assume: append([]string{"game_id / created_at are copied at the fork; updated_at is ignored"}, handAssume...),
		Rule:   "cases = generated hands advanced in lockstep on four replicas (in-memory; every call through table.NativeBackend; rebuilt from its own JSON at drawn cut points: never/always/random; an independently started second game); states compared as JSON after every operation, error results compared, backend input checked unmodified; non-trivial = hand with >= 10 compared operations that settled after JSON hops",
		Stages: []stage{two(1500, 50000), hand(16000, 400000)}}
	plans["C10"] = plan{Level: "exploration", Assume: handAssume,
		Rule:   "cases = (a) engine hands with themed decks, every seat checked on flop, turn, river and at close against the harness' own enumeration of admissible selections (public evaluator + independent reference ranker); (b) direct calls of GetAllPossibleCombinations on drawn hole/board sets; non-trivial = >= 4 board cards and best category >= pair; counters.evaluations_checked = player evaluations checked",
		Stages: []stage{{Name: "direct", Harness: "cards", Test: "TestC10Direct", Mode: "rapid", Quick: 60000, Thorough: 1500000}, two(2000, 60000), hand(16000, 500000)}}
	plans["C11"] = plan{Level: "exploration", Assume: handAssume,
		Rule:   "cases = generated hands with boundary bankrolls; at every decision point the offered list is compared with the table derived from the statement and the effect of the accepted action is checked; non-trivial = hand with a decision where the stack is within 1 chip of the wager to match, the minimum raise level or the minimum bet",
		Stages: []stage{two(3000, 100000), hand(40000, 1500000)}}
	plans["C12"] = plan{Level: "exploration", Assume: handAssume,
		Rule:   "cases = generated hands in which every bet/raise decision draws its amount from all classes (negative, zero, below/at the wager, undersized, minimum, above minimum, at/above the stack, +-2^62); classes:request:* is the histogram; non-trivial = hand with at least one sized request",
		Stages: []stage{two(3000, 100000), hand(60000, 2000000)}}
	plans["C13"] = plan{Level: "exploration", Assume: handAssume,
		Rule:   "cases = forced-bet configurations driven Start..PayBlinds: exhaustive grid (n<=4, ante<=2, SB<=2, BB 1..3, dealer blind 0/2, bankrolls 1..5, all buttons, live/dead SB; plus the button-blind / ante-only layouts SB = BB = 0, dealer blind 0..3; BB 0 with a bb seat: small blind and / or dealer blind only) + rapid G-CFG (one configuration in twenty a button-blind / ante-only game, one in twenty without a big blind); non-trivial = a stack within 1 chip of a forced amount it owes",
		Stages: []stage{{Name: "grid", Harness: "hand", Test: "TestForcedGrid", Mode: "enum", Shards: 1}, {Name: "forced", Harness: "hand", Test: "TestForcedRapid", Mode: "rapid", Quick: 60000, Thorough: 3000000}, hand(6000, 150000)}}
	plans["C14"] = plan{Level: "exploration", Assume: handAssume,
		Rule:   "cases = generated hands (all endings), card accounting checked after every operation; ShuffleCards on drawn sub-decks; pairs of hands alive at the same time with decks taken from the engine's constructors and interleaved operations; non-trivial = hand that reached the flop; shuffle input of >= 2 cards; pair of hands with >= 4 switches between them",
		Stages: []stage{{Name: "shuffle", Harness: "hand", Test: "TestShuffle", Mode: "rapid", Quick: 10000, Thorough: 300000}, two(6000, 200000), hand(40000, 1500000)}}
	plans["C15"] = plan{Level: "exploration", Assume: handAssume,
		Rule:   "cases = states of generated hands (every 3rd operation in quick, every one in thorough, always at close) x every viewer seat and the observer; the view's JSON text must contain no secret card string, re-inserting the redacted fields must reproduce the state; non-trivial = hand with a burned card or closed with >= 1 folded and >= 2 shown hands; counters.views = views checked",
		Stages: []stage{two(1000, 30000), hand(6000, 150000)}}
	c02 := plans["C02"]
	c02.Stages = append(c02.Stages, two(2000, 60000), stage{Name: "hands", Harness: "hand", Test: "TestHand", Mode: "rapid", Quick: 16000, Thorough: 400000})
	c02.Assume = append(c02.Assume, handAssume...)
	plans["C02"] = c02
	c16 := plans["C16"]
	c16.Stages = append(c16.Stages, two(2000, 60000), stage{Name: "hands", Harness: "hand", Test: "TestHand", Mode: "rapid", Quick: 16000, Thorough: 400000})
	c16.Assume = append(c16.Assume, handAssume...)
	plans["C16"] = c16

	seatAssume := []string{
		"operations are Join (specific / any), Seat, Reserve, Leave, Next on seat ids incl. out-of-range ones; query methods are called the way table/ calls them (GetPlayableSeats only once a dealer exists)",
		"Join(any) picks with the global math/rand and map order: the oracle accepts any empty non-reserved seat and the history is canonicalised to a drawn seat (Leave+Join, state-equivalent)",
	}
	hist := func(q, th int) stage {
		return stage{Name: "histories", Harness: "seats", Test: "TestSeatHistories", Mode: "rapid", Quick: q, Thorough: th}
	}
	reach := stage{Name: "reachable-states", Harness: "seats", Test: "TestReachableStates", Mode: "enum", Shards: 1}
	plans["C08"] = plan{Level: "exploration", Assume: seatAssume,
		Rule: "cases = (a) every transition from every seat-manager state reachable with <= 4 seats (thorough 5), each path re-executed on the real implementation; (b) rapid histories on 2..10 seats; (c) newcomer-between scenarios (k seated players, j hands, a newcomer on a drawn empty seat strictly between dealer and big blind, then 2*max hands); (d) the table glue: join / sit-in / sit-out / leave / next-hand histories on a table.Table driven without its loop (verif hook), position labels and playable flags of every player compared with the rule; non-trivial = Next() success with a non-playable seat among the first three clockwise from the dealer; scenario with a valid in-between seat",
		Stages: []stage{reach, hist(500000, 12000000), {Name: "newcomer", Harness: "seats", Test: "TestNewcomerBetween", Mode: "rapid", Quick: 150000, Thorough: 3000000},
			{Name: "table-glue", Harness: "seats", Test: "TestTablePositions", Mode: "rapid", Quick: 60000, Thorough: 1500000}}}
	plans["C17"] = plan{Level: "exploration", Assume: seatAssume,
		Rule:   "cases = every transition from every reachable state with <= 4 seats (thorough 5) + rapid histories; at every Next(): button = first seat able to play clockwise after the old dealer, refusal exactly with the insufficient-players error; non-trivial = Next() where the old dealer can no longer play or an occupied non-playable seat lies between old and new dealer",
		Stages: []stage{reach, hist(600000, 15000000)}}
	plans["C18"] = plan{Level: "exploration", Assume: append([]string{"the goroutine schedule of the race stage is not owned by the harness (stress + race detector)"}, seatAssume...),
		Rule:   "cases = every transition from every reachable state with <= 4 seats (thorough 5) + rapid histories with out-of-range ids (occupancy model, recover() around every call) + concurrent-join cases under the race detector (drawn table size, 2..32 goroutines, specific/any targets, pre-seated players; in a third of the cases leaves race with the joins: per seat players before + joins - leaves is 0 or 1 and what the seat list shows) + join/leave/sit-in/sit-out histories with out-of-range ids, optionally followed by racing joins, on table.Table and match.Table (what these tables publish against the occupancy model, under the race detector); non-trivial = history with a failed join and a leave; race case with more goroutines than free seats",
		Stages: []stage{reach, hist(600000, 15000000), {Name: "join-race", Harness: "seats", Test: "TestJoinRace", Mode: "race", Race: true, Quick: 6000, Thorough: 150000},
			{Name: "table-glue", Harness: "seats", Test: "TestGlueOccupancy", Mode: "race", Race: true, Quick: 20000, Thorough: 500000}}}

	mttAssume := []string{
		"tables follow the regulator's instructions: new players are seated, exactly the requested number of players is released through ReleasePlayers, a broken table hands everybody back (what the repository's own tests do)",
		"the waiting queue is read through the build-tag-guarded hook regulator.VerifWaitingQueue",
		"the regulator iterates Go maps: oracles hold for every iteration order, the observed history is recorded, replay retries",
	}
	mh := func(q, th int) stage {
		return stage{Name: "histories", Harness: "mtt", Test: "TestHistories", Mode: "rapid", Quick: q, Thorough: th}
	}
	grid := stage{Name: "settings-grid", Harness: "mtt", Test: "TestSettingsGrid", Mode: "enum", Shards: 1}
	plans["C09"] = plan{Level: "exploration", Assume: mttAssume,
		Rule:   "cases = tournament histories over a world model (settings 2<=min<=max<=10, a third at the default 9/6; AddPlayers batches 0..3*max, status steps, SyncState with eliminations on drawn tables, unknown-table calls, registrations after the deadline) with membership and counters checked after every call, + the settings grid; non-trivial = history with at least one sync that released, received or broke",
		Stages: []stage{grid, mh(120000, 4000000)}}
	plans["C19"] = plan{Level: "exploration", Assume: mttAssume,
		Rule:   "cases = the complete settings grid (2<=min<=max<=10, 0..6*max registrants, all at once before the start / one by one / in batches of 3 / of max after it; 3 repetitions each because of map order) + tournament histories; capacity and start conditions are checked inside the callbacks, occupancy plus outstanding demand (Required) against the capacity after every call; non-trivial = settings other than 9/6 with >= 2 tables opened",
		Stages: []stage{grid, mh(120000, 4000000)}}
	plans["C20"] = plan{Level: "exploration", Assume: mttAssume,
		Rule:   "cases = from the end state of every generated history (and every grid point, incl. large fields of 7..112 full tables) sweeps of SyncState(t,0) over all tables in a drawn order, instructions carried out, until a sweep asks for nothing; bound max(20, 2*tables+10) sweeps, and never five sweeps in a row that move players without changing how full any table or the queue is; histories contain stretches of 1..40 hands without a bust-out; non-trivial = settling run with at least one move; classes sweeps-to-settle:N = distribution of the number of sweeps needed",
		Stages: []stage{grid, mh(120000, 4000000)}}
}
