package main

func init() {
	plans["C03"] = plan{
		Level: "exploration",
		Rule: "exhaustive stage: every 5-card hand of the 52- and the 36-card deck under both ranking tables is scored by the evaluator and by an independent reference ranker; hands are grouped by reference key, every group must have one score and groups must be strictly increasing (decides every pair of hands); evaluations = hands scored; non-trivial = hand whose reference category is at least a pair (counted), plus distinct (hand, table, suit relabelling) triples of the metamorphic stage (all 120 card orders each)",
		Assume: []string{"the reference ranker (harness/cards/ref.go) encodes the rules of poker", "hands with ranks A-9-8-7-6 are left open under the 36-card deck or the short-deck table, as the property says"},
		Stages: []stage{
			{Name: "exhaustive", Harness: "cards", Test: "TestC03Exhaustive", Mode: "enum", Shards: 1},
			{Name: "metamorphic", Harness: "cards", Test: "TestC03Perm", Mode: "rapid", Quick: 8000, Thorough: 400000},
		},
	}
}
