#!/usr/bin/env python3
"""Lists mutation results (tools/mutation/results.json): summary per file and the surviving mutants with their source line."""
import json, sys, collections
res = json.load(open('/verif/tools/mutation/results.json'))
notes = {}
try:
    notes = json.load(open('/verif/tools/mutation/classification.json'))
except Exception:
    pass
only = sys.argv[1] if len(sys.argv) > 1 else ''
per = collections.defaultdict(collections.Counter)
for m in res:
    per[m['file']][m['verdict']] += 1
for f, c in sorted(per.items()):
    print(f"{f:34s} caught {c['CAUGHT']:4d}  survived {c['SURVIVED']:4d}  infra {c['INFRA']:3d}")
print()
for m in res:
    if m['verdict'] == 'CAUGHT' or (only and m['file'] != only):
        continue
    if m['id'] in notes and '--all' not in sys.argv:
        continue
    src = open('/verif/tools/mutation/src/' + m['file'] + '.txt', 'rb').read()
    ls = src.rfind(b'\n', 0, m['start']) + 1
    le = src.find(b'\n', m['end'])
    line = (src[ls:m['start']] + b'[[' + src[m['start']:m['end']] + b' => ' + m['repl'].encode() + b']]' + src[m['end']:le]).decode().strip()
    print(f"{m['id']:32s} {m['verdict']:8s} {m['func']:28s} L{m['line']}: {line[:170]}   {notes.get(m['id'], '')}")
