#!/bin/sh
# Behaviour-changing but property-preserving patches (written by independent sub-agents, /verif/benign/*):
# every check must stay silent on them. Usage: tools/run_benign.sh [tier]
T=${1:-quick}
/verif/tools/mut.py benign1 --patch /verif/benign/b1/patch.diff --expect-silent --tier $T --check C01 C02 C04 C05 C06 C07 C10 C11 C12 C13 C14 C15 C16
/verif/tools/mut.py benign2 --patch /verif/benign/b2/patch.diff --expect-silent --tier $T --check C01 C02 C05 C06 C07 C11 C12 C15 C16
/verif/tools/mut.py benign3 --patch /verif/benign/b3/patch.diff --expect-silent --tier $T --check C01 C02 C07 C16
/verif/tools/mut.py benign4 --patch /verif/benign/b4/patch.diff --expect-silent --tier $T --check C08 C17 C18
/verif/tools/mut.py benign5 --patch /verif/benign/b5/patch.diff --expect-silent --tier $T --check C09 C19 C20
/verif/tools/mut.py benign6 --patch /verif/benign/b6/patch.diff --expect-silent --tier $T --check C02 C03 C07 C10 C15
/verif/tools/mut.py benign7 --patch /verif/benign/b7/patch.diff --expect-silent --tier $T --check C01 C02 C04 C05 C06 C07 C10 C11 C12 C13 C14 C15 C16
/verif/tools/mut.py benign8 --patch /verif/benign/b8/patch.diff --expect-silent --tier $T --check C01 C02 C04 C05 C06 C07 C11 C12 C13 C16
/verif/tools/mut.py benign9 --patch /verif/benign/b9/patch.diff --expect-silent --tier $T --check C01 C04 C05 C06 C07 C10 C14 C15
/verif/tools/mut.py benign10 --patch /verif/benign/b10/patch.diff --expect-silent --tier $T --check C08 C17 C18
/verif/tools/mut.py benign11 --patch /verif/benign/b11/patch.diff --expect-silent --tier $T --check C09 C19 C20
/verif/tools/mut.py benign12 --patch /verif/benign/b12/patch.diff --expect-silent --tier $T --check C01 C06 C07 C10 C14 C15
