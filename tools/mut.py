#!/usr/bin/env python3
"""Sensitivity experiments (DESIGN.md §2.9): apply a change to a scratch
worktree of /repo, confirm the baseline tests still pass, run checks against
the scratch copy, remove the worktree.

  tools/mut.py NAME --edit FILE OLD NEW [--edit ...] | --patch FILE  --check ID [ID ...] [--tier quick] [--base REV]

Never touches /repo's working tree. Exit code 0 = every listed check caught it
(exit 1 + VIOLATION); 3 = some check missed it; 4 = baseline tests fail / does not build.
"""
import argparse, os, shutil, subprocess, sys, time

ENV = dict(os.environ, GOFLAGS="", GOPROXY="off", GOSUMDB="off", GOTOOLCHAIN="local")
PKGS = ["./combination/...", "./pot/...", "./regulator/...", "./settlement/...", "./testcases/..."]


def sh(cmd, cwd=None, env=None, timeout=None):
    return subprocess.run(cmd, cwd=cwd, env=env or ENV, stdout=subprocess.PIPE, stderr=subprocess.STDOUT, text=True, timeout=timeout)


def main():
    ap = argparse.ArgumentParser()
    ap.add_argument("name")
    ap.add_argument("--edit", nargs=3, action="append", default=[], metavar=("FILE", "OLD", "NEW"))
    ap.add_argument("--patch")
    ap.add_argument("--check", nargs="+", default=[])
    ap.add_argument("--tier", default="quick")
    ap.add_argument("--base", default="HEAD")
    ap.add_argument("--seed", default="1")
    ap.add_argument("--keep", action="store_true")
    ap.add_argument("--save", help="copy the first replay of each catching check to <dir>/<ID>/<name>.json")
    ap.add_argument("--expect-silent", action="store_true", help="the change is benign: checks must stay silent")
    a = ap.parse_args()

    wt = f"/var/tmp/vp-mut-{a.name}"
    out = f"/var/tmp/vp-mut-{a.name}.out"
    sh(["git", "-C", "/repo", "worktree", "remove", "--force", wt])
    shutil.rmtree(wt, ignore_errors=True)
    shutil.rmtree(out, ignore_errors=True)
    r = sh(["git", "-C", "/repo", "worktree", "add", "--detach", wt, a.base])
    if r.returncode != 0:
        print(r.stdout); return 4
    rc = 0
    try:
        for f, old, new in a.edit:
            p = os.path.join(wt, f)
            s = open(p).read()
            if s.count(old) != 1:
                print(f"EDIT-FAILED {f}: pattern occurs {s.count(old)} times"); return 4
            open(p, "w").write(s.replace(old, new))
        if a.patch:
            r = sh(["git", "-C", wt, "apply", os.path.abspath(a.patch)])
            if r.returncode != 0:
                print("PATCH-FAILED", r.stdout); return 4
        r = sh(["go", "build", "./..."], cwd=wt)
        if r.returncode != 0:
            print("MUTANT-DOES-NOT-BUILD\n" + r.stdout[-2000:]); return 4
        r = sh(["go", "test", "-vet=off", "-count=1"] + PKGS, cwd=wt, timeout=600)
        base_ok = r.returncode == 0
        print(f"[{a.name}] baseline tests: {'pass' if base_ok else 'FAIL'}")
        if not base_ok:
            print(r.stdout[-1500:])
            rc = 4
        for cid in a.check:
            env = dict(os.environ, VERIF_REPO=wt, VERIF_OUTDIR=out, VERIF_SEED=a.seed)
            t0 = time.time()
            r = subprocess.run(["/verif/check", cid, "--tier", a.tier], env=env, stdout=subprocess.PIPE, stderr=subprocess.STDOUT, text=True)
            dt = time.time() - t0
            lines = [l for l in r.stdout.splitlines() if l.startswith(("VIOLATION", "KNOWN-FINDING", "OK ", "INFRASTRUCTURE", "BUILD-FAILED"))]
            caught = r.returncode == 1 and any(l.startswith("VIOLATION") for l in lines)
            if a.expect_silent:
                verdict = "silent(ok)" if r.returncode == 0 else "FALSE-ALARM" if r.returncode == 1 else f"infra(exit {r.returncode})"
                if r.returncode != 0 and rc == 0: rc = 3
            else:
                verdict = "CAUGHT" if caught else ("MISSED" if r.returncode == 0 else f"exit {r.returncode}")
                if not caught and rc == 0: rc = 3
            print(f"[{a.name}] {cid}: {verdict} in {dt:.1f}s")
            if r.returncode != 0:
                for l in lines[:3]: print("   ", l)
                # show signature
                for l in lines:
                    if l.startswith("VIOLATION"):
                        rp = l.split("replay=")[-1].strip()
                        try:
                            import json
                            if a.save:
                                os.makedirs(os.path.join(a.save, cid), exist_ok=True)
                                shutil.copy(rp, os.path.join(a.save, cid, a.name + ".json"))
                            v = json.load(open(rp)).get("violation") or {}
                            print("    signature:", v.get("signature"), "|", (v.get("detail") or "")[:300])
                        except Exception as e:
                            print("    (replay unreadable:", e, ")")
                        break
                if r.returncode == 2: print(r.stdout[-1500:])
    finally:
        if not a.keep:
            sh(["git", "-C", "/repo", "worktree", "remove", "--force", wt])
            shutil.rmtree(wt, ignore_errors=True)
            shutil.rmtree(out, ignore_errors=True)
            sh(["git", "-C", "/repo", "worktree", "prune"])
    return rc


if __name__ == "__main__":
    sys.exit(main())
