#!/usr/bin/env python3
"""Classifies the surviving mutants of tools/mutation/results.json by review rules
(file, function, source-line pattern) -> category, and prints the table of DESIGN §10.5.

Categories
  E  equivalent: dead or redundant code, same observable behaviour on every reachable state
  I  informational field that no listed property speaks about (did_action, last_action, vpip,
     max_wager, winners[].withdraw, game_idx, ...)
  P  behaviour the properties leave open (when waiting players are let in, balancing thresholds,
     extra offers, the size of the minimum bet, shuffling, Bet(0), ...)
  H  helper / API outside every listed property (GameState.HasAction, GetAvailableSeatCount,
     deck constructors, table auto-start, position setters, error plumbing that cannot fire)
  X  the mutant never returns from a call or kills the process: inconclusive (exit 2), not a verdict
  ?  not reviewed
"""
import json, re, sys, collections

res = json.load(open('/verif/tools/mutation/results.json'))

# (file regex, func regex, text regex on "orig => repl", category, note)
RULES = [
    # --- X
    (r'.*', r'.*', None, 'X', 'INFRA'),
    # --- engine: informational fields
    (r'^(player|game)\.go$', r'.*', r'DidAction|UpdateLastAction|VPIP|MaxWager|LastAction', 'I', 'did_action / last_action / vpip / max_wager are not mentioned by any property'),
    (r'^player\.go$', r'^(Pass|Fold|Check|Call|Bet|Raise|Allin|Pay)$', r'UpdateLastAction|"(pass|fold|check|call|bet|raise|allin|pay|big_blind|small_blind|dealer_blind)"', 'I', 'last_action label'),
    (r'^player\.go$', r'^Pay$', r'.*', 'H', 'Player.Pay: the "pay" action is never offered by this engine version'),
    (r'^player\.go$', r'^(State|IsMovable|CheckPosition|CheckAction|AllowActions|ResetAllowedActions|Reset)$', r'.*', 'H', 'accessor; bounds tests that cannot fail for seats of the hand'),
    (r'^player\.go$', r'^pay$', r'Limit == "pot"|MaxWager', 'I', 'max_wager bookkeeping (pot limit is not enforced by the engine)'),
    (r'^player\.go$', r'^pay$', r'.*', 'E', 'all-in branch: both arms reset the acted flags; the raise test compares an increment with a level and hardly ever holds'),
    (r'^player\.go$', r'^(PayAnte|PayBlinds)$', r'CurrentEvent|err != nil|Wager > 0|StackSize|chips = ', 'E', 'guard repeated by the table-level operation / cap repeated inside pay()'),
    (r'^player\.go$', r'^PayAnte$', r'false => true|Ante == 0', 'E', 'the wager set by an ante is wiped by the round reset that follows'),
    (r'^player\.go$', r'^PayBlinds$', r'action = |>= 0|> =>', 'I', 'label of the posting / a blind of 0 posts 0 either way'),
    (r'^player\.go$', r'^(Bet|Raise|Call|Check|Allin|Fold)$', r'Acted|<= => <|< => <=|== \[\[0|chipLevel', 'P', 'Bet(0), Raise(to the current wager): not fixed by C11/C12; the acted flag is set again by BecomeRaiser'),
    (r'^player\.go$', r'^Raise$', r'Limit == "pot"|maxRaise', 'P', 'cap of a raise in a pot-limit game: C12 speaks of no-limit play only'),
    (r'^player\.go$', r'^Allin$', r'PreviousRaiseSize', 'E', 'assigning the same value'),
    (r'^player\.go$', r'^PayAnte$', r'Wager', 'E', 'paid-already guard cannot fire inside one table operation'),
    (r'^player\.go$', r'^PayBlinds$', r'err', 'I', 'pay() returns no error; only the last_action label is skipped'),
    (r'^game\.go$', r'^ResetAllPlayerStatus$', r'.*', 'I', 'did_action'),
    (r'^seat_manager/', r'^Join$', r'len\(', 'P', 'which of several open seats Join(any) takes'),
    (r'^settlement/pot\.go$', r'.*', r'.*', 'I', 'winners[] bookkeeping'),
    (r'^action\.go$', r'.*', r'ResetAllPlayerAllowedActions|CurrentEvent|Ante == 0|err != nil', 'E', 'nobody holds allowed actions at a table wait; phase guards are repeated per player'),
    (r'^action\.go$', r'^PayBlinds$', r'Blind\.BB|PreviousRaiseSize', 'P', 'minimum raise of a game without a big blind: not fixed by C12/C13'),
    (r'^event\.go$', r'.*', r'err != nil|err \[\[|onBreakPoint', 'E', 'error plumbing that cannot fire / updated_at'),
    (r'^game\.go$', r'^(Resume|Player|addPlayer|StartAtDealer|setCurrentPlayer|SetCurrentPlayer|NextPlayer|GetAllowedActions|UpdateLastAction|BecomeRaiser)$', r'.*', 'E', 'cached pointers / bounds tests / loops that return in their first turn / values overwritten before they are read'),
    (r'^game\.go$', r'^(ResetAllPlayerStatus|ResetRoundStatus|Start|StartRound|InitializeRound|PrepareRound|Initialize)$', r'AllowedActions|DidAction|Fold|InitialStackSize == |CurrentRaiser|CurrentPlayer|err != nil|Board = make|Burned = make|CurrentEvent = ""|ResetRoundStatus|SetCurrentPlayer|for i :=|MovablePlayerCount\(\) == 0', 'E', 'values reset again before use / redundant initialisation / all-in seats are merely asked to pass'),
    (r'^game\.go$', r'^Initialize$', r'MiniBet|Blind\.Dealer', 'P', 'size of the minimum bet only widens what is offered; C11 forbids no extra offer'),
    (r'^game\.go$', r'^Initialize$', r'ShuffleCards', 'P', 'no property demands that the deck is shuffled'),
    (r'^game\.go$', r'^GetAvailableActions$', r'.*', 'P', 'extra raise / bet offers at the boundary are allowed by C11'),
    (r'^game\.go$', r'^RequestBlinds$', r'.*', 'P', 'asking for blinds of 0, or configurations with a small blind and no big blind'),
    (r'^game_state\.go$', r'^(GetPlayer|HasPosition|HasAction|AllowAction)$', r'.*', 'H', 'helpers of GameState that the views do not use'),
    (r'^game_options\.go$', r'.*', r'.*', 'H', 'default option values (every generated configuration sets them)'),
    (r'^deck\.go$', r'.*', r'.*', 'P', 'content of the constructor decks and whether shuffling changes the order are not fixed by C14'),
    (r'^power\.go$', r'.*', r'.*', 'E', 'nil guard / tie order of equal scores'),
    (r'^settlement\.go$', r'.*', r'0 => 1', 'E', 'score 1 for a folded hand is still below every real score'),
    # --- evaluator
    (r'^combination/element\.go$', r'.*', r'.*', 'E', 'Element.Combination is written but never read'),
    (r'^combination/power\.go$', r'^(isStraight|isFlush)$', r'.*', 'E', 'guards that cannot fire for five cards of five distinct ranks / any card gives the suit'),
    (r'^combination/power\.go$', r'.*', r'.*', 'E', 'the exhaustive C03 stage ranks all 2,598,960 hands identically (order preserving change)'),
    (r'^combination/(combination|card)\.go$', r'.*', r'.*', 'E', 'loop bound beyond the last subset / bit that is never set'),
    # --- pots, settlement
    (r'^pot/', r'.*', r'.*', 'E', 'presence in the folded set is what counts, not the value; entries written back for folded players are not constrained (DESIGN §5.4)'),
    (r'^settlement/', r'.*', r'Winner|withdraw|contributerCount|groups|GetLoser|GetWinners|>= r|break', 'I', 'winners[].withdraw and counters that nothing reads; order of equal scores'),
    # --- seats
    (r'^seat_manager/', r'^(getAvailableSeatCount|getActiveSeats|getNonEmptySeatCount|SetDealer|SetSmallBlind|SetBigBlind|ApplyStates|GetNormalizeSeats|getNormalizeSeats)$', r'.*', 'H', 'getters and setters outside C08/C17/C18 (or loop bounds beyond the last seat)'),
    (r'^seat_manager/', r'^(renewSeatStatus|nextDealer|renewNonEmptySeats|findActivePlayer|getAvailableSeats|getPlayableSeat)$', r'.*', 'P', 'when exactly a waiting player is let in / which open seat is preferred: fixed by C08 only for the newcomer between dealer and big blind'),
    (r'^seat_manager/', r'^(join|Join|leave|Leave)$', r'-\[\[1|return', 'H', 'seat number returned next to an error'),
    (r'^table/internal\.go$', r'.*', r'.*', 'H', 'inPosition flag, error plumbing and nil guards of the table glue (a crash there is not the seat manager\'s)'),
    (r'^table/table\.go$', r'^Activate$', r'.*', 'H', 'auto-start of the table loop'),
    (r'^table/table\.go$', r'.*', r'GameIdx|emitStateUpdated|-\[\[1|err != nil', 'H', 'game index, update callback, value returned next to an error'),
    (r'^table/native_backend\.go$', r'.*', r'.*', 'E', 'JSON errors that cannot occur; CreateGame / Pay are not part of a hand the engine offers'),
    (r'^match/table\.go$', r'^ApplySeatChanges$', r'.*', 'H', 'position bookkeeping of the match table (noChanges, SetDealer...) is outside C18'),
    # --- regulator
    (r'^regulator/', r'.*', r'err != nil|err == ErrNoAvailableTable|return \[\[0', 'E', 'error plumbing for callbacks that do not fail / value returned next to an error'),
    (r'^regulator/', r'.*', r'.*', 'P', 'balancing policy (when to break, which level to aim at, when to open): C09/C19/C20 hold for any policy that conserves players, respects the capacity and settles'),
]


def classify(m, line):
    if m['verdict'] == 'INFRA':
        return 'X', 'does not return / kills the process'
    for fre, fnre, tre, cat, note in RULES[1:]:
        if re.search(fre, m['file']) and re.search(fnre, m['func']) and (tre is None or re.search(tre, line)):
            return cat, note
    return '?', ''


def main():
    per = collections.defaultdict(collections.Counter)
    unc = []
    out = {}
    for m in res:
        if m['verdict'] == 'CAUGHT':
            per[m['file']]['caught'] += 1
            continue
        src = open('/verif/tools/mutation/src/' + m['file'] + '.txt', 'rb').read()
        ls = src.rfind(b'\n', 0, m['start']) + 1
        le = src.find(b'\n', m['end'])
        line = (src[ls:m['start']] + b'[[' + src[m['start']:m['end']] + b' => ' + m['repl'].encode() + b']]' + src[m['end']:le]).decode().strip()
        cat, note = classify(m, line)
        per[m['file']][cat] += 1
        out[m['id']] = {'category': cat, 'note': note, 'line': line[:200], 'func': m['func']}
        if cat == '?':
            unc.append((m['id'], m['func'], line[:170]))
    json.dump(out, open('/verif/tools/mutation/classification.json', 'w'), indent=0)
    tot = collections.Counter()
    rows = []
    for f in sorted(per):
        c = per[f]
        tot.update(c)
        rows.append(f"| `{f}` | {sum(c.values())} | {c['caught']} | {c['E']} | {c['I']} | {c['P']} | {c['H']} | {c['X']} | {c['?']} |")
    print('| file | test-passing mutants | caught | E | I | P | H | X | ? |')
    print('|---|---|---|---|---|---|---|---|---|')
    print('\n'.join(rows))
    print(f"| **total** | {sum(tot.values())} | {tot['caught']} | {tot['E']} | {tot['I']} | {tot['P']} | {tot['H']} | {tot['X']} | {tot['?']} |")
    if '--unclassified' in sys.argv:
        for u in unc:
            print(*u)


if __name__ == '__main__':
    main()
