#!/usr/bin/env python3
"""Confirms and evaluates a seeded change delivered by a sub-agent.

  tools/seed_eval.py <srcdir> <name> [--check ID ...] [--tier quick] [--keep-only-confirmed]

<srcdir> holds patch.diff, demo_test.go, meta.json. In a fresh scratch worktree of
/repo (under /var/tmp, removed afterwards) this
  1. applies patch.diff, builds, runs the 61 baseline tests (must pass),
  2. copies the demonstration where meta.json says and runs it: must FAIL with the
     change and PASS without it,
  3. runs the listed checks (default: the property named in meta.json) against the
     changed copy (VERIF_REPO) and records which catch it,
and stores everything as /verif/seeded/<name>/ (patch.diff, demo, meta.json).
"""
import argparse, json, os, shutil, subprocess, sys, time

ENV = dict(os.environ, GOFLAGS="", GOPROXY="off", GOSUMDB="off", GOTOOLCHAIN="local")
PKGS = ["./combination/...", "./pot/...", "./regulator/...", "./settlement/...", "./testcases/..."]


def sh(cmd, cwd=None, env=None, timeout=900):
    try:
        return subprocess.run(cmd, cwd=cwd, env=env or ENV, stdout=subprocess.PIPE, stderr=subprocess.STDOUT, text=True, timeout=timeout)
    except subprocess.TimeoutExpired as e:
        class R: pass
        r = R(); r.returncode = 124; r.stdout = (e.stdout or "") + "\nTIMEOUT"
        return r


def main():
    ap = argparse.ArgumentParser()
    ap.add_argument("src")
    ap.add_argument("name")
    ap.add_argument("--check", nargs="+")
    ap.add_argument("--tier", default="quick")
    ap.add_argument("--seeds", default="1")
    a = ap.parse_args()
    meta = json.load(open(os.path.join(a.src, "meta.json")))
    prop = meta.get("property") or meta.get("breaks_property")
    checks = a.check or [prop]
    wt = f"/var/tmp/vp-seed-{a.name}"
    out = f"/var/tmp/vp-seed-{a.name}.out"
    sh(["git", "-C", "/repo", "worktree", "remove", "--force", wt])
    shutil.rmtree(wt, ignore_errors=True); shutil.rmtree(out, ignore_errors=True)
    r = sh(["git", "-C", "/repo", "worktree", "add", "--detach", wt, "HEAD"])
    if r.returncode != 0:
        print(r.stdout); return 4
    result = {"confirmed": False, "ran": []}
    try:
        patch = os.path.abspath(os.path.join(a.src, "patch.diff"))
        demo_src = os.path.join(a.src, "demo_test.go")
        demo_dir = meta.get("demo_package_dir", "testcases").strip("/")
        if demo_dir.startswith("tmp/seed-"):
            demo_dir = "/".join(demo_dir.split("/")[2:])
        demo_dst_dir = os.path.join(wt, demo_dir)
        os.makedirs(demo_dst_dir, exist_ok=True)
        demo_dst = os.path.join(demo_dst_dir, "zz_seed_demo_test.go")
        shutil.copy(demo_src, demo_dst)
        demo_cmd = ["go", "test", "-vet=off", "-count=1", "./" + demo_dir + "/", "-run", meta.get("demo_run_pattern", ".")]
        # without the change: the demo must pass
        r0 = sh(demo_cmd, cwd=wt)
        result["demo_passes_without_change"] = r0.returncode == 0
        if r0.returncode != 0:
            print("DEMO FAILS ON UNCHANGED CODE\n" + r0.stdout[-1500:])
        r = sh(["git", "-C", wt, "apply", patch])
        if r.returncode != 0:
            print("PATCH DOES NOT APPLY", r.stdout); return 4
        r = sh(["go", "build", "./..."], cwd=wt)
        result["builds"] = r.returncode == 0
        if r.returncode != 0:
            print("DOES NOT BUILD\n" + r.stdout[-1500:])
        os.rename(demo_dst, demo_dst + ".off")
        rb = sh(["go", "test", "-vet=off", "-count=1"] + PKGS, cwd=wt)
        os.rename(demo_dst + ".off", demo_dst)
        result["baseline_tests_pass_with_change"] = rb.returncode == 0
        if rb.returncode != 0:
            print("BASELINE FAILS WITH CHANGE\n" + rb.stdout[-1500:])
        r1 = sh(demo_cmd, cwd=wt)
        result["demo_fails_with_change"] = r1.returncode != 0 and "[build failed]" not in r1.stdout
        if not result["demo_fails_with_change"]:
            print("DEMO DOES NOT FAIL WITH CHANGE\n" + r1.stdout[-800:])
        result["confirmed"] = bool(result.get("builds") and result["baseline_tests_pass_with_change"] and result["demo_fails_with_change"] and result["demo_passes_without_change"])
        print(f"[{a.name}] confirmed={result['confirmed']} ({ {k: v for k, v in result.items() if k not in ('ran',)} })")
        os.remove(demo_dst)
        for cid in checks:
            for seed in a.seeds.split(","):
                env = dict(os.environ, VERIF_REPO=wt, VERIF_OUTDIR=out, VERIF_SEED=seed)
                t0 = time.time()
                r = subprocess.run(["/verif/check", cid, "--tier", a.tier], env=env, stdout=subprocess.PIPE, stderr=subprocess.STDOUT, text=True)
                dt = time.time() - t0
                caught = r.returncode == 1 and "VIOLATION" in r.stdout
                sig = ""
                for l in r.stdout.splitlines():
                    if l.startswith("VIOLATION"):
                        try:
                            v = json.load(open(l.split("replay=")[-1].strip())).get("violation") or {}
                            sig = v.get("signature", "") + " | " + (v.get("detail") or "")[:240]
                        except Exception:
                            pass
                        break
                verdict = "CAUGHT" if caught else ("MISSED" if r.returncode == 0 else f"exit {r.returncode}")
                print(f"[{a.name}] {cid} tier={a.tier} seed={seed}: {verdict} in {dt:.1f}s {sig}")
                if r.returncode == 2:
                    print(r.stdout[-1200:])
                result["ran"].append({"check": cid, "tier": a.tier, "seed": int(seed), "verdict": verdict, "wall_s": round(dt, 1), "signature": sig.split(" | ")[0]})
    finally:
        sh(["git", "-C", "/repo", "worktree", "remove", "--force", wt])
        shutil.rmtree(wt, ignore_errors=True); shutil.rmtree(out, ignore_errors=True)
        sh(["git", "-C", "/repo", "worktree", "prune"])
    if result["confirmed"]:
        dst = f"/verif/seeded/{a.name}"
        os.makedirs(dst, exist_ok=True)
        if os.path.abspath(a.src) != os.path.abspath(dst):
            shutil.copy(os.path.join(a.src, "patch.diff"), dst)
            shutil.copy(os.path.join(a.src, "demo_test.go"), dst)
        m = {"breaks_property": prop, "summary": meta.get("summary"), "needs_to_manifest": meta.get("needs_to_manifest"),
             "files_changed": meta.get("files_changed"), "demo_package_dir": demo_dir, "demo_run_pattern": meta.get("demo_run_pattern", "."),
             "origin": "independent sub-agent given only the property text and a scratch worktree",
             "confirmed_by_me": {k: v for k, v in result.items() if k != "ran"},
             "what_i_ran": "tools/seed_eval.py: fresh scratch worktree of /repo HEAD; go build; the 61 baseline tests; demo with and without the patch; then ./check <ID> with VERIF_REPO pointing at the patched worktree",
             "checks_run": result["ran"]}
        old = os.path.join(dst, "meta.json")
        if os.path.exists(old):
            try:
                prev = json.load(open(old))
                m["checks_run"] = prev.get("checks_run", []) + result["ran"]
            except Exception:
                pass
        json.dump(m, open(old, "w"), indent=1)
    return 0 if result["confirmed"] else 5


if __name__ == "__main__":
    sys.exit(main())
