// mutgen lists single-site mutants of Go source files (systematic sensitivity
// experiment, DESIGN.md §10.5). Output: JSON lines {file, func, line, kind, start, end, repl, orig}.
//
//	go run ./tools/mutgen -root /repo -only 'Join,Leave' file.go ...
package main

import (
	"encoding/json"
	"flag"
	"fmt"
	"go/ast"
	"go/parser"
	"go/token"
	"os"
	"path/filepath"
	"strconv"
	"strings"
)

type Mut struct {
	File  string `json:"file"`
	Func  string `json:"func"`
	Line  int    `json:"line"`
	Kind  string `json:"kind"`
	Start int    `json:"start"`
	End   int    `json:"end"`
	Orig  string `json:"orig"`
	Repl  string `json:"repl"`
}

var swaps = map[token.Token][]string{
	token.LSS: {"<=", ">"}, token.LEQ: {"<", "=="}, token.GTR: {">=", "<"}, token.GEQ: {">", "=="},
	token.EQL: {"!="}, token.NEQ: {"=="}, token.LAND: {"||"}, token.LOR: {"&&"},
	token.ADD: {"-"}, token.SUB: {"+"}, token.MUL: {"/"}, token.QUO: {"*"}, token.REM: {"/"},
}
var assignSwaps = map[token.Token]string{token.ADD_ASSIGN: "-=", token.SUB_ASSIGN: "+="}

func main() {
	root := flag.String("root", "/repo", "repository root")
	only := flag.String("only", "", "comma separated function names (all when empty)")
	flag.Parse()
	want := map[string]bool{}
	for _, f := range strings.Split(*only, ",") {
		if f != "" {
			want[f] = true
		}
	}
	enc := json.NewEncoder(os.Stdout)
	for _, rel := range flag.Args() {
		path := filepath.Join(*root, rel)
		src, err := os.ReadFile(path)
		if err != nil {
			fmt.Fprintln(os.Stderr, err)
			os.Exit(2)
		}
		fset := token.NewFileSet()
		f, err := parser.ParseFile(fset, path, src, 0)
		if err != nil {
			fmt.Fprintln(os.Stderr, err)
			os.Exit(2)
		}
		off := func(p token.Pos) int { return fset.Position(p).Offset }
		for _, d := range f.Decls {
			fd, ok := d.(*ast.FuncDecl)
			if !ok || fd.Body == nil {
				continue
			}
			name := fd.Name.Name
			if len(want) > 0 && !want[name] {
				continue
			}
			if strings.HasPrefix(name, "Print") || strings.HasPrefix(name, "print") || strings.HasPrefix(name, "Verif") {
				continue
			}
			emit := func(kind string, s, e int, repl string) {
				enc.Encode(Mut{File: rel, Func: name, Line: fset.Position(fd.Pos()).Line + strings.Count(string(src[off(fd.Pos()):s]), "\n"), Kind: kind, Start: s, End: e, Orig: string(src[s:e]), Repl: repl})
			}
			ast.Inspect(fd.Body, func(n ast.Node) bool {
				switch x := n.(type) {
				case *ast.CallExpr:
					// leave print statements alone
					if se, ok := x.Fun.(*ast.SelectorExpr); ok {
						if id, ok := se.X.(*ast.Ident); ok && id.Name == "fmt" {
							return false
						}
					}
				case *ast.BinaryExpr:
					for _, r := range swaps[x.Op] {
						if x.Op == token.ADD {
							// string concatenation cannot be subtracted
							if bl, ok := x.X.(*ast.BasicLit); ok && bl.Kind == token.STRING {
								continue
							}
							if bl, ok := x.Y.(*ast.BasicLit); ok && bl.Kind == token.STRING {
								continue
							}
						}
						emit("binop", off(x.OpPos), off(x.OpPos)+len(x.Op.String()), r)
					}
				case *ast.UnaryExpr:
					if x.Op == token.NOT {
						emit("unnot", off(x.OpPos), off(x.OpPos)+1, "")
					}
				case *ast.BasicLit:
					if x.Kind == token.INT {
						if v, err := strconv.ParseInt(x.Value, 0, 64); err == nil {
							emit("intlit", off(x.Pos()), off(x.End()), strconv.FormatInt(v+1, 10))
							if v > 0 {
								emit("intlit", off(x.Pos()), off(x.End()), strconv.FormatInt(v-1, 10))
							}
						}
					}
				case *ast.Ident:
					if x.Name == "true" {
						emit("bool", off(x.Pos()), off(x.End()), "false")
					} else if x.Name == "false" {
						emit("bool", off(x.Pos()), off(x.End()), "true")
					}
				case *ast.IfStmt:
					emit("ifcond", off(x.Cond.Pos()), off(x.Cond.End()), "false")
					emit("ifcond", off(x.Cond.Pos()), off(x.Cond.End()), "true")
				case *ast.AssignStmt:
					if r, ok := assignSwaps[x.Tok]; ok {
						emit("assignop", off(x.TokPos), off(x.TokPos)+2, r)
					}
					if x.Tok != token.DEFINE {
						emit("delstmt", off(x.Pos()), off(x.End()), "")
					}
				case *ast.IncDecStmt:
					emit("delstmt", off(x.Pos()), off(x.End()), "")
					if x.Tok == token.INC {
						emit("incdec", off(x.TokPos), off(x.TokPos)+2, "--")
					} else {
						emit("incdec", off(x.TokPos), off(x.TokPos)+2, "++")
					}
				case *ast.ExprStmt:
					if ce, ok := x.X.(*ast.CallExpr); ok {
						if se, ok := ce.Fun.(*ast.SelectorExpr); ok {
							if id, ok := se.X.(*ast.Ident); ok && id.Name == "fmt" {
								return false
							}
						}
						emit("delstmt", off(x.Pos()), off(x.End()), "")
					}
				case *ast.BranchStmt:
					if x.Tok == token.CONTINUE || x.Tok == token.BREAK {
						emit("delstmt", off(x.Pos()), off(x.End()), "")
					}
				case *ast.DeferStmt:
					emit("delstmt", off(x.Pos()), off(x.End()), "")
				}
				return true
			})
		}
	}
}
