#!/opt/veriftools/pyvenv/bin/python3
"""Regenerates /verif/MANIFEST.json from tools/manifest_src.json + the list of
plans known to the driver, and validates it against the schema."""
import json, subprocess, sys
src = json.load(open('/verif/tools/manifest_src.json'))
claimed = subprocess.run(['/verif/check', 'list'], stdout=subprocess.PIPE, text=True).stdout.split()
props = [json.loads(l) for l in open('/verif/properties.jsonl')]
checks, na = [], []
for p in props:
    pid = p['id']
    meta = src['checks'].get(pid)
    if pid in claimed and meta:
        checks.append({
            'property_id': pid,
            'quick_cmd': f'./check {pid} --tier quick',
            'thorough_cmd': f'./check {pid} --tier thorough',
            'evidence_file': f'/verif/evidence/{pid}.json',
            'replay_cmd_template': f'./check {pid} --replay {{path}}',
            'engine': meta['engine'],
            'level_claimed': {'category': 'exploration', 'text': meta['text'], 'design_ref': meta['design_ref']},
            'level_note': meta['note'],
            'technique': meta['technique'],
        })
    else:
        na.append({'property_id': pid, 'reason': src['not_applicable'].get(pid, 'check not built yet (work in progress); the design decides it with the same technique, see DESIGN.md §4')})
m = {
    'version': 1,
    'setup_cmd': src['setup_cmd'],
    'hooks': src['hooks'],
    'engines': src['engines'],
    'checks': checks,
    'notes': src['notes'],
    'not_applicable': na,
}
json.dump(m, open('/verif/MANIFEST.json', 'w'), indent=1)
try:
    import jsonschema
    jsonschema.validate(m, json.load(open('/root/.vp/MANIFEST.schema.json')))
    print('MANIFEST.json valid;', len(checks), 'checks,', len(na), 'not applicable')
except ImportError:
    print('jsonschema not available; not validated')
