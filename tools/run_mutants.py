#!/usr/bin/env python3
"""Runs the sensitivity mutants listed in tools/mutants.json through tools/mut.py
(several at a time) and prints / stores a table: tools/run_mutants.py [name-prefix ...]"""
import json, subprocess, sys, concurrent.futures as cf
muts = json.load(open('/verif/tools/mutants.json'))
sel = sys.argv[1:]
if sel:
    muts = [m for m in muts if any(m['name'].startswith(s) for s in sel)]
def run(m):
    cmd = ['/verif/tools/mut.py', m['name']]
    for e in m['edits']:
        cmd += ['--edit', e[0], e[1], e[2]]
    cmd += ['--check'] + m['checks']
    if m.get('benign'): cmd.append('--expect-silent')
    if m.get('tier'): cmd += ['--tier', m['tier']]
    if m['name'].startswith('revert-'): cmd += ['--save', '/verif/regress']
    r = subprocess.run(cmd, stdout=subprocess.PIPE, stderr=subprocess.STDOUT, text=True)
    return m, r.returncode, r.stdout
results = []
with cf.ThreadPoolExecutor(max_workers=3) as ex:
    for m, rc, out in ex.map(run, muts):
        lines = [l for l in out.splitlines() if l.startswith('[') or 'signature:' in l or 'EDIT-FAILED' in l or 'DOES-NOT-BUILD' in l]
        print(f"=== {m['name']} (rc={rc}) {m.get('why','')}")
        for l in lines: print('   ', l[:260])
        results.append({'name': m['name'], 'rc': rc, 'lines': lines})
        sys.stdout.flush()
json.dump(results, open('/verif/tools/mutants_last_run.json', 'w'), indent=1)
try:
    allr = {r['name']: r for r in json.load(open('/verif/tools/mutants_all_runs.json'))}
except Exception:
    allr = {}
for r in results:
    allr[r['name']] = r
json.dump(list(allr.values()), open('/verif/tools/mutants_all_runs.json', 'w'), indent=1)
bad = [r['name'] for r in results if r['rc'] not in (0,)]
print('NOT-OK:', bad)
