#!/usr/bin/env python3
"""Systematic single-site mutation run (DESIGN.md §10.5).

  tools/mutrun.py phaseA            # build + 61 tests for every mutant -> tools/mutation/phaseA.json
  tools/mutrun.py phaseB [--jobs 2] # checks against the test-passing mutants -> tools/mutation/results.json

Works in scratch copies of /repo under /var/tmp (removed at the end); never touches /repo.
"""
import json, os, shutil, subprocess, sys, time, threading, queue, argparse

ENV = dict(os.environ, GOFLAGS="", GOPROXY="off", GOSUMDB="off", GOTOOLCHAIN="local")
PKGS = ["./combination/...", "./pot/...", "./regulator/...", "./settlement/...", "./testcases/..."]
OUT = "/verif/tools/mutation"
# the tree the mutant offsets of phaseA.json refer to (a scratch worktree of that commit when /repo has moved on)
SRC = os.environ.get("MUT_SRC", "/repo")

# file -> (function filter, checks in the order they are tried)
PLAN = {
    "player.go": ("", ["C01", "C12", "C11", "C04", "C05", "C06"]),
    "game.go": ("", ["C05", "C06", "C04", "C11", "C01", "C14", "C10"]),
    "event.go": ("", ["C06", "C05", "C01", "C14", "C02"]),
    "action.go": ("", ["C04", "C06", "C13", "C01", "C12"]),
    "pot.go": ("", ["C16", "C02", "C01"]),
    "settlement.go": ("", ["C02", "C01"]),
    "power.go": ("", ["C10", "C02"]),
    "game_state.go": ("", ["C15", "C07"]),
    "deck.go": ("", ["C14"]),
    "game_options.go": ("", ["C03", "C10", "C14", "C01"]),
    "combination/card.go": ("", ["C03", "C10"]),
    "combination/combination.go": ("", ["C03", "C10", "C02"]),
    "combination/element.go": ("", ["C03", "C10"]),
    "combination/power.go": ("", ["C03", "C10", "C02"]),
    "pot/level.go": ("", ["C16", "C02", "C01"]),
    "pot/level_list.go": ("", ["C16", "C02", "C01"]),
    "pot/pot.go": ("", ["C16", "C02"]),
    "settlement/level.go": ("", ["C02", "C01"]),
    "settlement/pot.go": ("", ["C02", "C01"]),
    "settlement/rank.go": ("", ["C02", "C01"]),
    "settlement/settlement.go": ("", ["C02", "C01"]),
    "seat_manager/seat_manager.go": ("", ["C18", "C17", "C08"]),
    "regulator/regulator.go": ("", ["C09", "C19", "C20"]),
    "table/native_backend.go": ("", ["C07"]),
    "table/internal.go": ("setupPosition", ["C08"]),
    "table/table.go": ("Join,Leave,leave,Activate,Reserve", ["C18", "C08"]),
    "match/table.go": ("Join,ApplySeatChanges,GetPlayers,GetPlayerCount", ["C18"]),
}


def sh(cmd, cwd=None, timeout=None, env=None):
    try:
        r = subprocess.run(cmd, cwd=cwd, env=env or ENV, stdout=subprocess.PIPE, stderr=subprocess.STDOUT, text=True, timeout=timeout)
        return r.returncode, r.stdout
    except subprocess.TimeoutExpired as e:
        return 124, (e.stdout or "") if isinstance(e.stdout, str) else ""


def scratch(k):
    d = f"/var/tmp/mw-{k}"
    shutil.rmtree(d, ignore_errors=True)
    shutil.copytree(SRC, d, ignore=shutil.ignore_patterns(".git"))
    return d


def gen():
    muts = []
    for f, (only, checks) in PLAN.items():
        cmd = ["/verif/bin/mutgen"] + (["-only", only] if only else []) + [f]
        rc, out = sh(cmd)
        for i, l in enumerate(out.splitlines()):
            m = json.loads(l)
            m["id"] = f"{f}:{i}"
            muts.append(m)
    return muts


def apply(d, m):
    p = os.path.join(d, m["file"])
    src = open(os.path.join(SRC, m["file"]), "rb").read()
    open(p, "wb").write(src[:m["start"]] + m["repl"].encode() + src[m["end"]:])


def restore(d, m):
    shutil.copy(os.path.join(SRC, m["file"]), os.path.join(d, m["file"]))


def phaseA(jobs):
    muts = gen()
    print(len(muts), "mutants")
    q = queue.Queue()
    for m in muts:
        q.put(m)
    res = []
    lock = threading.Lock()

    def worker(k):
        d = scratch(f"a{k}")
        sh(["go", "build", "./..."], cwd=d)
        sh(["go", "test", "-vet=off", "-count=1"] + PKGS, cwd=d, timeout=300)
        while True:
            try:
                m = q.get_nowait()
            except queue.Empty:
                break
            apply(d, m)
            rc, out = sh(["go", "build", "./..."], cwd=d, timeout=300)
            if rc != 0:
                st = "nobuild"
            else:
                rc, out = sh(["go", "test", "-vet=off", "-count=1", "-timeout", "60s"] + PKGS, cwd=d, timeout=400)
                st = "survived-tests" if rc == 0 else ("tests-timeout" if rc == 124 or "panic: test timed out" in out else "killed-by-tests")
            restore(d, m)
            with lock:
                m2 = dict(m); m2["phaseA"] = st
                res.append(m2)
                if len(res) % 100 == 0:
                    print(len(res), "done", flush=True)
        shutil.rmtree(d, ignore_errors=True)

    ts = [threading.Thread(target=worker, args=(k,)) for k in range(jobs)]
    [t.start() for t in ts]; [t.join() for t in ts]
    os.makedirs(OUT, exist_ok=True)
    res.sort(key=lambda m: (m["file"], int(m["id"].split(":")[1])))
    json.dump(res, open(f"{OUT}/phaseA.json", "w"), indent=0)
    from collections import Counter
    print(Counter(m["phaseA"] for m in res))


def phaseB(jobs, limit, only_file, tier, scale, redo, ids=None, checks=None, force=False):
    res = json.load(open(f"{OUT}/phaseA.json"))
    todo = [m for m in res if m["phaseA"] == "survived-tests" and (not only_file or m["file"] == only_file)]
    donef = f"{OUT}/results.json"
    done = {}
    if os.path.exists(donef):
        done = {m["id"]: m for m in json.load(open(donef))}
    todo = [m for m in todo if m["id"] not in done or (redo and done[m["id"]]["verdict"] in redo.split(","))]
    if ids:
        todo = [m for m in res if m["id"] in ids]
    if limit:
        todo = todo[:limit]
    print(len(todo), "test-passing mutants to check")
    q = queue.Queue()
    for m in todo:
        q.put(m)
    lock = threading.Lock()

    def worker(k):
        d = scratch(f"b{k}")
        out = f"/var/tmp/mw-b{k}.out"
        while True:
            try:
                m = q.get_nowait()
            except queue.Empty:
                break
            apply(d, m)
            m["verdict"] = "SURVIVED"
            prev = set() if force else {c["check"] for c in (done.get(m["id"]) or {}).get("checks", []) if c["exit"] == 0 and float(c.get("scale", "1")) >= float(scale)}
            todo_checks = [c for c in (checks or PLAN[m["file"]][1]) if c not in prev]
            old_checks = [c for c in (done.get(m["id"]) or {}).get("checks", []) if c["check"] not in todo_checks and c["exit"] == 0]
            m["checks"] = old_checks
            for cid in (checks or PLAN[m["file"]][1]):
                if cid in prev:
                    continue
                env = dict(os.environ, VERIF_REPO=d, VERIF_OUTDIR=out, VERIF_SEED="1")
                t0 = time.time()
                rc, o = sh(["/verif/check", cid, "--tier", tier, "--scale", scale], env=env, timeout=900)
                sig = ""
                if rc == 1:
                    for l in o.splitlines():
                        if l.startswith("VIOLATION"):
                            try:
                                v = json.load(open(l.split("replay=")[-1].strip())).get("violation") or {}
                                sig = v.get("signature", "")
                            except Exception:
                                pass
                            break
                m["checks"].append({"check": cid, "scale": scale, "exit": rc, "wall_s": round(time.time() - t0, 1), "signature": sig})
                if rc == 1:
                    m["verdict"] = "CAUGHT"
                    break
                if rc != 0:
                    m["verdict"] = "INFRA"  # hang / crash of the harness process: not a verdict
                    break
            restore(d, m)
            shutil.rmtree(out, ignore_errors=True)
            with lock:
                done[m["id"]] = m
                json.dump(sorted(done.values(), key=lambda x: (x["file"], int(x["id"].split(":")[1]))), open(donef, "w"), indent=0)
                print(m["id"], m["func"], m["kind"], repr(m["orig"][:30]), "->", repr(m["repl"]), m["verdict"], [(c["check"], c["exit"]) for c in m["checks"]][-1], flush=True)
        shutil.rmtree(d, ignore_errors=True)

    ts = [threading.Thread(target=worker, args=(k,)) for k in range(jobs)]
    [t.start() for t in ts]; [t.join() for t in ts]


if __name__ == "__main__":
    ap = argparse.ArgumentParser()
    ap.add_argument("phase")
    ap.add_argument("--jobs", type=int, default=0)
    ap.add_argument("--limit", type=int, default=0)
    ap.add_argument("--file", default="")
    ap.add_argument("--tier", default="quick")
    ap.add_argument("--scale", default="1")
    ap.add_argument("--redo", default="", help="verdicts to run again, e.g. SURVIVED,INFRA")
    ap.add_argument("--ids", default="", help="file with mutant ids (one per line) or comma list: run exactly these")
    ap.add_argument("--force", action="store_true", help="run the checks again even if they passed before (the harness has changed)")
    ap.add_argument("--checks", default="", help="comma list of checks to run instead of the planned ones")
    a = ap.parse_args()
    if a.phase == "phaseA":
        phaseA(a.jobs or 8)
    else:
        ids = None
        if a.ids:
            ids = set(open(a.ids).read().split()) if os.path.exists(a.ids) else set(a.ids.split(","))
        phaseB(a.jobs or 2, a.limit, a.file, a.tier, a.scale, a.redo, ids, a.checks.split(",") if a.checks else None, a.force)
