#!/usr/bin/env python3
"""Regenerates the tables of DESIGN.md §10 from tools/mutants.json,
tools/mutants_last_run.json and seeded/*/meta.json."""
import json, glob, re
muts = {m['name']: m for m in json.load(open('/verif/tools/mutants.json'))}
try:
    last = {r['name']: r for r in json.load(open('/verif/tools/mutants_all_runs.json'))}
except Exception:
    last = {}
out = []
out.append('### 10.1 Reverted fixes and hand-written mutants\n')
out.append('| change | what it does | 61 tests | caught by | first signature |')
out.append('|---|---|---|---|---|')
for name, m in muts.items():
    r = last.get(name)
    if not r:
        out.append(f"| `{name}` | {m.get('why','')} | ? | (not run) | |"); continue
    base = 'pass' if any('baseline tests: pass' in l for l in r['lines']) else 'FAIL'
    caught, missed, sig = [], [], ''
    for l in r['lines']:
        mm = re.search(r'\] (C\d+): (CAUGHT|MISSED|exit \d+)', l)
        if mm:
            (caught if mm.group(2) == 'CAUGHT' else missed).append(mm.group(1))
        if 'signature:' in l and not sig:
            sig = l.split('signature:')[1].split('|')[0].strip()
    c = ', '.join(caught) + (f" (not by {', '.join(missed)})" if missed else '')
    out.append(f"| `{name}` | {m.get('why','')} | {base} | {c} | `{sig}` |")
out.append('')
out.append('### 10.2 Seeded changes (independent sub-agents)\n')
out.append('| name | property | change | needs | first run | now | signature |')
out.append('|---|---|---|---|---|---|---|')
n = miss_first = 0
for f in sorted(glob.glob('/verif/seeded/*/meta.json')):
    m = json.load(open(f)); name = f.split('/')[-2]; prop = m['breaks_property']
    runs = [r for r in m['checks_run'] if r['check'] == prop]
    first = runs[0]['verdict'] if runs else '?'
    now = runs[-1]['verdict'] if runs else '?'
    sig = runs[-1].get('signature', '') if runs else ''
    others = sorted({r['check'] for r in m['checks_run'] if r['check'] != prop and r['verdict'] == 'CAUGHT'})
    n += 1; miss_first += first != 'CAUGHT'
    def short(t, k):
        t = (t or '').replace('|', '/').replace('\n', ' ')
        return t if len(t) <= k else t[:k - 1] + '…'
    out.append(f"| `{name}` | {prop} | {short(m.get('summary'), 230)} | {short(m.get('needs_to_manifest'), 200)} | {first} | {now}{' (also ' + ', '.join(others) + ')' if others else ''} | `{sig}` |")
out.append('')
out.append(f"{n} seeded changes kept; {miss_first} were missed by the quick tier as it stood when they arrived. Every miss was traced to a cause and the check strengthened (see the *As built* notes in §4 and §9); none was made to pass by loosening an oracle.")
s = open('/verif/DESIGN.md').read()
a = s.index('<!-- SENSITIVITY-TABLES-BEGIN -->') + len('<!-- SENSITIVITY-TABLES-BEGIN -->')
b = s.index('<!-- SENSITIVITY-TABLES-END -->')
open('/verif/DESIGN.md', 'w').write(s[:a] + '\n' + '\n'.join(out) + '\n' + s[b:])
print('tables written:', len(muts), 'mutants,', n, 'seeds')
