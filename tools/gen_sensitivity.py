#!/usr/bin/env python3
"""Regenerates the tables of DESIGN.md §10 from tools/mutants.json,
tools/mutants_last_run.json and seeded/*/meta.json."""
import json, glob, re
muts = {m['name']: m for m in json.load(open('/verif/tools/mutants.json'))}
try:
    last = {r['name']: r for r in json.load(open('/verif/tools/mutants_all_runs.json'))}
except Exception:
    last = {}
out = []
out.append('### 10.1 Reverted fixes and hand-written mutants\n')
out.append('| change | what it does | 61 tests | caught by | first signature |')
out.append('|---|---|---|---|---|')
for name, m in muts.items():
    r = last.get(name)
    if not r:
        out.append(f"| `{name}` | {m.get('why','')} | ? | (not run) | |"); continue
    base = 'pass' if any('baseline tests: pass' in l for l in r['lines']) else 'FAIL'
    caught, missed, sig = [], [], ''
    for l in r['lines']:
        mm = re.search(r'\] (C\d+): (CAUGHT|MISSED|exit \d+)', l)
        if mm:
            (caught if mm.group(2) == 'CAUGHT' else missed).append(mm.group(1))
        if 'signature:' in l and not sig:
            sig = l.split('signature:')[1].split('|')[0].strip()
    c = ', '.join(caught) + (f" (not by {', '.join(missed)})" if missed else '')
    out.append(f"| `{name}` | {m.get('why','')} | {base} | {c} | `{sig}` |")
out.append('')
out.append('### 10.2 Seeded changes (independent sub-agents)\n')
out.append('| name | property | change | needs | first run | now | signature |')
out.append('|---|---|---|---|---|---|---|')
n = miss_first = 0
for f in sorted(glob.glob('/verif/seeded/*/meta.json')):
    m = json.load(open(f)); name = f.split('/')[-2]; prop = m['breaks_property']
    runs = [r for r in m['checks_run'] if r['check'] == prop]
    first = runs[0]['verdict'] if runs else '?'
    now = runs[-1]['verdict'] if runs else '?'
    sig = runs[-1].get('signature', '') if runs else ''
    others = sorted({r['check'] for r in m['checks_run'] if r['check'] != prop and r['verdict'] == 'CAUGHT'})
    n += 1; miss_first += first != 'CAUGHT'
    def short(t, k):
        t = (t or '').replace('|', '/').replace('\n', ' ')
        return t if len(t) <= k else t[:k - 1] + '…'
    out.append(f"| `{name}` | {prop} | {short(m.get('summary'), 230)} | {short(m.get('needs_to_manifest'), 200)} | {first} | {now}{' (also ' + ', '.join(others) + ')' if others else ''} | `{sig}` |")
out.append('')
out.append(f"{n} seeded changes kept; {miss_first} were missed by the quick tier as it stood when they arrived. Every miss was traced to a cause and the check strengthened (see the *As built* notes in §4 and §9); none was made to pass by loosening an oracle.")
out.append('')
out.append('**Seeded changes that are (still) not caught by the check of the property they were written for, and why:**\n')
out.append('* `C08-c`, `C17-d2` (and the general theme of *when* a waiting player is let in once other players leave): the change lets a waiting player in one hand earlier than the pinned code does, in a history in which other players leave. C08 fixes the newcomer\'s timing only with "other players staying put", and both C08 and C17 speak of the seats that *are* able to play; positions and button are right for that set. Catching these would need a model of the activation rules copied from the implementation - a regression oracle, not a property oracle - and would raise alarms on legitimate changes (benign patch b10 changes exactly such timing).')
out.append('* `C11-e2`: removes the raise offer from a player who is level with the wager and holds at least the minimum bet but not more than the minimum raise. C11 demands a raise offer only for a stack above the minimum raise; no listed property is violated.')
out.append('* `C11-e1`: a short all-in lowers the minimum raise, so a player who cannot make a full raise is additionally offered raise. C11 does not forbid the extra offer; carrying the undersized raise out is a C12 violation, and **C12 catches the change** (`undersized-raise/minimum`).')
out.append('* `C04-e1`: an overflow in the below-the-wager test of `Raise` for levels next to `MinInt64`. The action (raise) was offered, so C04 is not concerned; it is C12\'s "a request below the current wager is refused", and **C12 catches the change** (`below-wager-not-refused/huge`).')
out.append('* `C04-f1`: the preflop round is skipped when only one seat still has chips after the blinds, although the other seat owes part of the big blind. No betting round takes place, so there is no turn order to get wrong; what is broken is C05\'s "never closed while a player with chips has put in less than the wager to match", and **C05 catches the change** (`closed-early/owes`).')
out.append('* `C04-f2`: a second posting of the blinds by a seat that has posted *on its own through the per-player method* (`Player(i).PayBlinds()`) is refused half-way through the table operation. On the pinned code that very sequence charges the seat twice: per-player posting followed by the table operation is not a sequence the engine supports (nothing in the repository does it), so the generators do not produce it, and a check that did would alarm on the unchanged tree.')
out.append('* `C08-a` (round 1): removed the activation of the seats the button passes, on the grounds that they are opened together with the rest of the seats anyway. It broke the heads-up case and was caught; since the repair of finding F9 (`891eda8`) opens those seats before heads-up positions are decided, the seed\'s own demonstration passes with the change applied - the change has become property-preserving and the silence is right (the same edit survives as a mutant in §10.5).')
out.append('* `C07-h1` (round 8): a process-wide cache of five-card evaluations keyed without the ranking table. Every replica of C07 lives in the same process and is polluted alike, so resuming shows no difference; what is broken is the reported evaluation, and **C10 catches the change** (`incoherent`).')
out.append('* `C10-h2`: showdown scores derived from the *position* in a sorted list, so tied hands no longer tie. The reported hands are all correct (C10\'s subject); the payout is wrong, and **C02 catches the change** (`engine/amount/exact`).')
out.append('* `C11-h2`: identical in effect to `C12-h2` (an all-in raise that does not update the minimum raise): only an *extra* raise offer results, which C11 does not forbid; carrying the undersized raise out is a C12 violation and **C12 catches the change**.')
out.append('* `C06-i1` (round 9): the pots are no longer rebuilt before the settlement, so a hand restored from JSON right before its last `Next()` closes with a result in which no pot has a winner and nobody\'s chips change. The hand does reach its closed state *with* a result and accepts nothing afterwards (C06\'s clauses); that the result pays nobody is C02\'s subject and a difference between the restored and the live game is C07\'s, and **C02 and C07 catch the change** (`engine/amount/exact`, `backend-diverges/next`).')
out.append('* `C18-h1`: only shows when a seat manager is restored (`ApplyStates`) from a snapshot of a *smaller* table than the one it was built for. The pinned code does not support that either (its `Join(any)` then hands out the stale seats beyond the new size), nothing in the repository does it, and the histories restore into a manager of the same size.')
out.append('* `C09-j1` (round 10): drops players when a hand-out is trimmed to the free seats of a table - which only happens with an outstanding demand above the free seats, and by the agent\'s own analysis that state needs the competition to be put back to Pending while tables are running (registrations during the pause book a demand that is not served). A competition that goes backwards is not generated (see `C19-h1`): nothing in the repository does it, and on the pinned code that very history already over-fills a table (9 seated + a stale demand of 2, then two late entries are sent to the full table), so the pause is not a supported use and a check that generated it would alarm on the unchanged tree.')
out.append('* `C08-j1` (round 10): a newcomer who has joined but not yet sat in when the button passes him keeps a closed seat - visible only with a *second* newcomer behind him who is ready, so that the big blind lands behind the first. C08 fixes the timing "other players staying put"; with another player arriving in the same break the others do not stay put. A generalised rule (took a seat between dealer and big blind, passed by the button since, has sat in => dealt in) was tried as an oracle and is **falsified by the pinned code itself** (3 of 17 k relevant histories: when the button passes a not-yet-ready newcomer in the one-player-left branch of `nextDealer`, the seat stays closed exactly as in the seeded change), so it is not what the code under test promises and was not adopted.')
out.append('* `C19-h1`: opens a table while the status is Pending *after the competition had already been started once and was put back*. C19 forbids tables \"before the competition has started\"; a competition that goes back to Pending is not generated.')
out.append('* `C19-h2`: needs a `requestTableFn` callback that fails (see `C19-f1`).')
out.append('* `C14-g1`: only shows in a configuration that requires more hole cards than a player holds (3 required of 2). The pinned engine accepts that configuration but cannot evaluate it (it reports four-card "hands"), so it is not among the accepted configurations the generators draw from.')
out.append('* `C19-f1`: only shows when a table *refuses* the players the regulator assigns to it (the assign callback returns an error). C09/C19/C20 are stated for "tables that follow its instructions"; on the pinned code a refusing table already loses the refused players or makes the dispatch loop spin, so refusals are outside the domain (listed under the assumptions of these checks).')
out.append('')
out.append('### 10.3 Changes that keep every property (false-alarm experiment)\n')
out.append('Twelve sub-agents (two rounds of six) were given the 20 property statements and asked for the opposite of a seeded defect: realistic, non-trivial changes of behaviour or internal structure that keep all properties true (`/verif/benign/b1..b12`: patch and the agent\'s notes). `tools/run_benign.sh` applies each in a scratch worktree and runs the checks of the touched area; **every check must stay silent**.\n')
out.append('| patch | area | what changes (all of it allowed by the properties) |')
out.append('|---|---|---|')
out.append('| b1 | betting engine | VPIP bookkeeping; new error values for wrong-phase operations; pots republished after the blinds and at every turn; `last_action` records what was really posted / an over-sized bet as all-in; first-to-act lookup refactored |')
out.append('| b2 | pots | pots published live after every action; a zero contribution creates no level; levels maintained incrementally in deterministic order; folded players\' entries carry what they paid into that pot |')
out.append('| b3 | settlement | ranking rebuilt (ties in seat order); one odd-chip cursor carried across levels and pots; scores kept in a map; folded players in a "mucked" group instead of score 0; `Winners` list every winner with the full share |')
out.append('| b4 | seat manager | `Join(any)` deterministic; out-of-range ids answered with another error value; `Reset()` re-binds the positions; position logic rewritten as one ring walk; `GetNormalizeSeats` wraps |')
out.append('| b5 | regulator | deterministic choice of the table to top up; release count from one scan; requirement sheet rewritten; one queue-pop helper; a releasing table clears its `Required` |')
out.append('| b6 | evaluator | completely different (bit-packed) score encoding with the same order; reported cards ordered by significance; which of several equal selections is reported; lexicographic candidate enumeration; a correctly keyed memo cache |')
out.append('| b7 | engine plumbing | players kept in a seat-indexed slice, `LoadState`/`ApplyOptions` rebuild from scratch; `GetPlayers()` in seat order; `ApplyOptions` copies the deck; event/`updated_at` bookkeeping; new error values |')
out.append('| b8 | actions (`player.go`) | one commit-chips helper; an all-in that is a full raise makes the player the current raiser; negative amounts clamped; action tail shared |')
out.append('| b9 | views, backend | views share one helper and mask with `nil` instead of `[]`; a folded viewer no longer gets an evaluation of the own dead hand; backend clones by a manual deep copy; one generic `apply`; errors wrapped in `*BackendError` |')
out.append('| b10 | seat manager | deterministic `Join(any)` and `GetAvailableSeats`; all sat-in waiting players are let in when fewer than two can play; `Reset` empties seats in place; `ApplyStates` resizes; setters refuse out-of-range seats |')
out.append('| b11 | regulator | emptiest table topped up first; exact `Required` bookkeeping; release/break-up policy details; queue handling |')
out.append('| b12 | deck, dealing | new-pack deck order; Fisher-Yates on a private source; a private copy of the deck is shuffled; hole cards dealt one at a time round the table |')
out.append('')
out.append('Result: silent on all twelve (quick tier), with one exception that was a false alarm of mine and is corrected: b9 blanks the *viewer\'s own* hand evaluation once the viewer has folded, and C15\'s oracle demanded the viewer\'s whole own entry unchanged. The statement keeps "the viewer\'s own cards and all public information"; an evaluation of a folded hand is neither (it is hidden from everybody else even after the close), so the oracle now accepts the viewer\'s own evaluation either unchanged or absent - anything else in the own entry, and an *altered* evaluation, still alarm. All seven seeded C15 changes are still caught after the correction. Silent on the first six (quick tier), also after the later strengthenings of the checks. Two oracles were loosened *because of this experiment\'s reasoning, before it ran*: C01 accepts pots republished between the fixed publication points, C04\'s carried-out-action clause only judges action names of the offer vocabulary; C14 accepts hole cards handed out before the first street.')
out.append('')
out.append('### 10.4 Silence on the unchanged tree\n')
out.append('On the final tree (after fix F10 and the strengthenings of rounds 6 and 7): quick tier at `VERIF_SEED` 1..5 for all 20 properties (100 runs, machine busy with other runs): 100 x OK; thorough tier at seed 1: 20 x OK (1-21 min each; C15 is the longest since every state is shown to n + 4 viewers). Earlier in the session: seeds 1..7 (140 runs) OK. All twelve benign patches: 80 check runs, all silent. `vp check` (fresh copy of the sandbox, `setup_cmd`, every quick command): nothing needed attention. After the strengthenings of rounds 9 and 10 (C07 stack mix, C13 structures without a big blind, C18 racing leaves, C19 outstanding demand, C20 quiet stretches / progress oracle / large fields, seat histories with quiet stretches): all 20 quick checks at seed 1 OK, the changed checks (C07 C08 C09 C13 C17 C18 C19 C20) also at seeds 2 and 3, thorough tier of C18 (150 k race cases, a third with racing leaves), C19 and C20 (4 M histories each, 5-6 min) OK on the final checks, benign regulator patches b5 and b11 silent under C09 / C19 / C20; `vp check` on the round-9 tree: nothing needed attention.')
# ---- 10.5 systematic mutation
import subprocess, os
if os.path.exists('/verif/tools/mutation/results.json'):
    tab = subprocess.run(['python3', '/verif/tools/mutclass.py'], stdout=subprocess.PIPE, text=True).stdout.strip()
    pa = json.load(open('/verif/tools/mutation/phaseA.json'))
    import collections
    ca = collections.Counter(m['phaseA'] for m in pa)
    out.append('')
    out.append('### 10.5 Systematic single-site mutation\n')
    out.append(f"`tools/mutgen` (go/ast) lists every single-site mutant of the anchored source files - relational, logical and arithmetic operator swaps, integer literals +-1, `true`/`false`, negation removed, `if` conditions forced to `true`/`false`, assignments / calls / `continue` / `break` / `defer` deleted; for `table/` and `match/` only the functions the properties are anchored in. `tools/mutrun.py phaseA` builds each and runs the 61 tests: of {len(pa)} mutants {ca['nobuild']} do not build, {ca['killed-by-tests']} are killed by the existing tests, {ca['tests-timeout']} hang them, and **{ca['survived-tests']} pass all 61 tests**. `phaseB` runs the checks of the properties anchored in the mutated file against each of these (first pass at a quarter of the quick budget, stopping at the first check that reports; second passes at the full quick budget for the groups reviewed below). Result per file (`tools/mutation/results.json`; categories assigned by the review rules in `tools/mutclass.py`, written to `tools/mutation/classification.json`):\n")
    out.append(tab)
    out.append('')
    out.append('E = equivalent on every reachable state (dead or redundant code: guards repeated one level down, values reset before they are read, loops that return in their first turn, fields that are written and never read); I = only an informational field changes that no listed property mentions (`did_action`, `last_action`, `vpip`, `max_wager`, `winners[].withdraw`, `game_idx`); P = behaviour the properties leave open (when exactly waiting players are let in, balancing thresholds of the regulator, extra offers at a boundary, the size of the minimum bet, the pot-limit cap, whether the deck is shuffled, `Bet(0)`, which open seat `Join(any)` takes); H = helpers and API outside every listed property (`GameState.HasAction`..., `GetAvailableSeatCount`, position setters, the table\'s auto-start, option defaults, values returned next to an error); X = the mutant does not return from a call or kills the process - the check ends inconclusive (exit 2) unless the death is a Go runtime fatal error inside the code under test, which C18 / C06 / C09 report. The classification is a review by function and source line, not a proof; the column `?` counts what was not reviewed.')
    out.append('')
    out.append('What the experiment changed in the checks: (1) a closed hand that carries **no settlement result** was only reported by C06; it now violates C02 as well (`engine/no-result`). (2) C13 did not generate **button-blind / ante-only games** (SB = BB = 0): a dealer blind of exactly 1 that is never asked for slipped through; the grid and the rapid stage now contain these layouts (`game.go` `RequestBlinds` mutants are caught). (3) A deck constructor that returns a different deck made the *generator* crash (exit 2): generation now uses the harness\' own 52 / 36 cards, the engine\'s constructors are only used where a hand is deliberately started with them, and C14 checks `dealt-twice` there. (3b) Round 7 of the seeded changes showed that one of the surviving seat-manager mutants classified as *open policy* (`renewSeatStatus`, heads-up branch taken for every player count) does break C08\'s "not before": the newcomer scenarios now also contain sat-out players who come back, and the mutant is caught. (4) A missing `Lock()` in front of a deferred `Unlock()` kills the process with a runtime fatal error: the driver now attributes such a death inside the code under test to C18 (seats), C06 (engine) or C09 (regulator) and writes a replay that re-runs the dying process; (5) calls that never return (loop counters removed, a missing `Unlock`) are ended by a watchdog after 90 s with an inconclusive result instead of holding the check until the test deadline. (6) C13, C12 and C11 had been left out of the first-pass check lists of `action.go` / `event.go` / `game.go`; the second pass with them caught the blind-posting mutants listed as caught above.')
s = open('/verif/DESIGN.md').read()
a = s.index('<!-- SENSITIVITY-TABLES-BEGIN -->') + len('<!-- SENSITIVITY-TABLES-BEGIN -->')
b = s.index('<!-- SENSITIVITY-TABLES-END -->')
open('/verif/DESIGN.md', 'w').write(s[:a] + '\n' + '\n'.join(out) + '\n' + s[b:])
print('tables written:', len(muts), 'mutants,', n, 'seeds')
